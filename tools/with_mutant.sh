#!/bin/bash
# usage: with_mutant.sh <patch.diff> <bpsim args...>
# Builds a private copy of the harness against a private worktree of /repo with the patch applied,
# then runs bpsim with the given arguments (evidence/replays go to /verif/scratch/mine-run).
set -u
P="$1"; shift
W=/tmp/wt/mine; SW=/verif/scratch/sim-mine
[ -d $W ] || git -C /repo worktree add --detach $W main -q
cd $W && git checkout -q --detach main && git checkout -- . && git apply "$P" || { echo "patch does not apply"; exit 2; }
mkdir -p $SW && rsync -a --delete --exclude target /verif/sim/ $SW/ && sed -i 's#path = "/repo"#path = "/tmp/wt/mine"#' $SW/Cargo.toml
( cd $SW && cargo build --release --offline > build.log 2>&1 ) || { echo "BUILD FAILED"; grep -E "^error" -A8 $SW/build.log | head -30; cd $W && git checkout -- .; exit 2; }
export VERIF_DIR=/verif/scratch/mine-run VERIF_FIXTURES=/verif
mkdir -p $VERIF_DIR; cp /verif/known_findings.json $VERIF_DIR/
$SW/target/release/bpsim "$@"; rc=$?
cd $W && git checkout -- .
exit $rc
