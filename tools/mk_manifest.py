#!/usr/bin/env python3
"""Regenerates /verif/MANIFEST.json from the table below (single source of truth)."""
import json, os
HERE = os.path.dirname(os.path.dirname(os.path.abspath(__file__)))

TB = ("arkworks field/group arithmetic and element (de)serialisation, SHA3, ChaCha, STROBE; "
      "the reference models (RefCS, RefSchedule, RefVerifier, RefCodec, RefGens) which are pinned by agreement with "
      "the pristine tree on every fault-free run and by the recorded fixtures; seeded search, so a clean run is evidence, not proof")

CHECKS = {
 "C01": ("exploration", "3.C01", "deterministic simulation, fault-free configuration: seeded call histories vs RefCS satisfaction oracle",
         "Seeded simulation of complete prover->channel->verifier sessions over generated call histories (all API calls incl. randomized closures, three curves, independent capacity histories on both sides, non-default bases); the model decides satisfiability, the real code must prove, decode and accept. Sampling, not proof: right level because the property is universal over programs and the only oracle that scales is an executable model."),
 "C02": ("exploration", "3.C02", "deterministic simulation with fault injection into prover memory (wire, gate triple via hook, constant); model-decided two-sided oracle",
         "Each run injects exactly one fault into the witness / statement of an otherwise satisfiable session and asks the model whether the assignment is now unsatisfied; unsatisfied => the emitted proof must be rejected, still satisfied => accepted. Every (fault kind x phase) cell is populated; positions are drawn incl. first/last/boundary gates. Also pairs of faults with cancelling errors (two adjacent constraint rows; two gates, biased to the phase boundary), which only a weight collision lets through. A guard-off leg (same sources, /repo linked without verif-hooks, no gate overwrite) runs a slice first."),
 "C03": ("exploration", "3.C03", "deterministic simulation: every delivery judged by the real verifier and by an executable reference verifier (separate relations, explicit folding)",
         "Differential check against RefVerifier, which re-derives all challenges with its own schedule, evaluates relations (a),(b),(c) separately and folds the generators explicitly round by round. Deliveries: honest, honest-from-bad-witness, adversarially modified in any field incl. compensating shifts; an adaptive adversary (forgeries tuned to a weight derived at every earlier schedule position, coordinated pair shifts, t_x rewritten so that relation (b) holds) and an adversarial prover node (reference prover with chosen, e.g. zeroed, nonces). The adversarial prover can also move mass between the first- and second-phase commitments before they are absorbed (relations reject; a verifier whose coefficients coincide for some shape accepts). One-sided list surgery in the tamper catalogue. Guard-off leg."),
 "C04": ("fault_enumeration", "3.C04", "channel fault enumeration on accepted proofs: every single-bit flip, full field-level tamper catalogue, decoded-object identity oracle",
         "For each sampled accepted proof the channel adversary enumerates every single-bit flip of the encoding and the complete field-level catalogue (every slot x every perturbation, every pair swap, round surgery). Exhaustive over the fault space of each sampled proof. Round surgery includes a surplus / missing point in ONE list only. Guard-off leg."),
 "C05": ("exploration", "3.C05", "deterministic simulation with misdelivery and verifier-side statement/context deviation faults; deviation-class oracle plus reference relations",
         "An accepted proof is delivered to a verifier whose statement or bound context deviates in exactly one way from every class the property lists, to the verifier of an unrelated session, and to twin verifiers with the identical statement. Deviation => reject, identical => accept; every delivery is also held to the reference relations. Includes constraints that name a commitment through a hand-built handle BEFORE it is committed (forward references), on both roles or on the verifier only. Guard-off leg."),
 "C06": ("exploration", "3.C06", "recorded Merlin operation histories of both roles checked against an executable reference schedule",
         "The vendored Merlin records every transcript operation; the main-transcript history of prover and verifier (labels, exact absorbed bytes, challenge outputs) must equal the schedule RefSchedule builds from the statement and the received proof; rejected deliveries must be a prefix ending at the failed validation; r comes from a clone taken after the last absorbed message; follow-up challenges agree; the same through batch_verify (member transcripts)."),
 "C07": ("exploration", "3.C07", "deterministic simulation of a batch-verifying server fed by many sessions, incl. adversarially correlated (+d/-d, zero-sum) members; oracle = conjunction of individual real verdicts",
         "Batches of 0..N deliveries with drawn composition, order, size mix and faulty-member positions, including pairs/triples whose residuals cancel under equal weights and position-aware tuples that cancel under weights affine/quadratic in the position; gate-free batches; caller-chosen bases. batch_verify must agree with the conjunction of fresh individual verifications and must return a verdict whenever every member does."),
 "C08": ("fault_enumeration", "3.C08", "hostile channel / stream / allocator fault enumeration in an isolated child process with intent log",
         "Enumerates the (|L|,|R|) grid against circuits of every small size through verify and batch_verify, identity/special values in every slot, stream faults at every offset; samples random and structure-aware garbage under a counting allocator. No panic, abort or out-of-bounds; decode memory linear in input."),
 "C16": ("exploration", "3.C16", "replica lockstep simulation: one call history applied step by step to real Prover, real Verifier and RefCS; missing-assignment fault",
         "Two mirrored state machines driven in lockstep with a model; invariant after every call: equal handles and gate counts. Phase 2 executes inside real prove/verify for a sampled subset. F15 checks the MissingAssignment error and an unchanged allocation cursor."),
 "C11": ("fault_enumeration", "3.C11", "torn-write / invalid-element / stream fault enumeration on encodings of proofs of every size, with an independent layout model",
         "For one proof per (curve, gate count 0..gmax, phase kind): determinism, round trip, verdict, size law, RefCodec agreement; every strict prefix; every scalar slot x non-canonical values; every point slot x off-curve / invalid-flag / small-order / torsion-shifted points; reader and writer faults. Rejections must be FormatError."),
 "C12": ("exploration", "3.C12", "deterministic simulation of a stateful generator store under generated histories (increase, persist/reload, clone, views, threads, fresh process) against RefGens and pinned digests",
         "Histories of capacity increases with persistence and reload mid-history; after every op every generator equals the independent RefGens derivation; all (n, m) views incl. n = 0; size_hint exact at every step; 8 threads and a fresh process agree; distinctness, subgroup membership and digests pinned from the reference revision."),
 "C17": ("fault_enumeration", "3.C17", "resource-shortage enumeration: every (n1, n2, prover capacity, verifier capacity) cell through prove, verify and batch_verify",
         "Exhaustive grid of gate counts and capacities on both sides (and 1..3 parties): insufficient-generators error exactly below the padded threshold, never a panic, proof bytes independent of slack, accept at and above the threshold."),
 "C18": ("exploration", "3.C18", "replay of persisted artefacts of the reference revision (proofs, commitments, wrong statements, schedules, generator digests) on the current tree, plus fresh sessions against the recorded schedule",
         "Durability-across-upgrade: what the reference revision wrote must still be read and mean the same. Fixtures recorded once from the reference revision; the reference models stand in for the other version in mixed-version pairs."),
 "C09": ("exploration", "3.C09", "RNG-seam simulation: recorded RNG life cycle, role attribution by single-draw fault injection, algebraic opening against an independent reference prover",
         "Keying of the transcript RNG is read from the recorded operations; every RNG draw is perturbed in turn to attribute it to a blinding role through the first proof component that moves (by delta times B~, G_i or H_i); the map must be total, injective, non-zero, distinct; RefProver then reproduces every proof component from (witness, challenges, attributed nonces). Independence and replayability across external seeds, incl. stuck external RNG."),
 "C10": ("exploration", "3.C10", "sub-protocol session simulation with a reference prover and verifier that fold generators explicitly; tamper catalogue",
         "The created proof must equal the reference folding round by round for k in 0..=7 over vector/factor families; every tampered variant is judged by real verify and by explicit folding; verdicts must coincide, degenerate identity cross terms are rejected by both. Factor vectors mix ones and non-ones in every arrangement; one-sided surplus / missing points. (No guard-off leg: the type is only reachable through the guarded re-export.)"),
 "C15": ("exploration", "3.C15", "session-simulation workload profile: one-constraint circuits over random expression trees, model evaluator as oracle, statement-constant fault",
         "Weakest fit (operators are pure functions): the observation point is the verdict of a complete two-party run, the oracle is the model's own AST evaluator; accept leg and off-by-delta reject leg; per-operator-impl probes."),
}

NOT_APPLICABLE = {
 "C13": "pure algebraic identity of a stateless deterministic function of (v, r, B, B~): no schedule, history, fault, stream, randomness or second party for a simulator to own (DESIGN.md section 4)",
 "C14": "number-theoretic facts about source constants (primality, group order, mul-by-a equivalence): no execution under any fault establishes them (DESIGN.md section 4)",
}
PENDING = "check not built yet in this revision of /verif (planned in DESIGN.md section 3)"

def main():
    ids = ["C%02d" % i for i in range(1, 19)]
    checks = []
    for pid, (lvl, ref, tech, text) in sorted(CHECKS.items()):
        checks.append({
            "property_id": pid,
            "quick_cmd": "./check %s quick" % pid,
            "thorough_cmd": "./check %s thorough" % pid,
            "evidence_file": "/verif/evidence/%s.json" % pid,
            "replay_cmd_template": "./check %s --replay {path}" % pid,
            "engine": "bpsim",
            "level_claimed": {"category": lvl, "text": text, "design_ref": "DESIGN.md " + ref},
            "level_note": TB,
            "technique": tech,
        })
    na = []
    for pid in ids:
        if pid in CHECKS:
            continue
        na.append({"property_id": pid, "reason": NOT_APPLICABLE.get(pid, PENDING)})
    m = {
        "version": 1,
        "setup_cmd": "cd /verif/sim && CARGO_NET_OFFLINE=true cargo build --release --offline && cd /verif/sim-nohooks && CARGO_NET_OFFLINE=true cargo build --release --offline && cd /verif && ./sim/target/release/bpsim selftest all",
        "hooks": {
            "guard": "cargo feature verif-hooks (off by default)",
            "enable": "the harness crate /verif/sim has a default feature `hooks` = [\"ark-bulletproofs/verif-hooks\"] and depends on /repo by path; every ./check rebuilds it from /repo's working tree (main leg, guard ON). Every ./check also rebuilds /verif/sim-nohooks, which compiles the same simulator sources WITHOUT that feature (binary bpsim-off: /repo linked with the guard OFF, public API only) and runs a slice of the same check first (guard-off leg; all checks except C10, which needs the guarded IPP re-export), plus bpsim-nohooks, the C08 list-length grid",
            "baseline_off_cmd": "cd /repo && cargo test --workspace --no-fail-fast --offline",
            "source_commits": HOOK_COMMITS,
            "add_only": True,
        },
        "engines": [{
            "name": "bpsim",
            "path": "/verif/sim",
            "serves_properties": sorted(CHECKS.keys()),
            "kind_free_text": "single-process deterministic simulator: seeded program/fault/schedule generation from VERIF_SEED, real ark-bulletproofs as prover/verifier/batch-verifier nodes, simulated channel / RNG / stream / allocator seams, instrumented vendored Merlin, executable reference models as oracles, replay files",
        }],
        "checks": checks,
        "not_applicable": na,
        "notes": "Exit codes: 0 held, 1 VIOLATION line printed, 2 harness/build error. VERIF_SEED (default 1) decides every random choice. Known findings: /verif/known_findings.json (read-only at run time).",
    }
    json.dump(m, open(os.path.join(HERE, "MANIFEST.json"), "w"), indent=1)
    print("wrote MANIFEST.json with", len(checks), "checks,", len(na), "not_applicable")

import subprocess
HOOK_COMMITS = [l.split()[0] for l in subprocess.run(["git", "-C", "/repo", "log", "--format=%h %s"], capture_output=True, text=True).stdout.splitlines() if l.split(" ",1)[1].startswith("verif-hooks")]
main()
