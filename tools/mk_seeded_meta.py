#!/usr/bin/env python3
"""Writes /verif/seeded/<name>/meta.json from the recorded evaluation results."""
import json, os, re, glob
NEEDS = {
 "agent-C01": ("C01", "prover keeps a half-open allocate gate across the phase boundary (reset moved into the 1-phase branch)", "odd number of single allocate() calls in phase 1 + a randomized closure that calls allocate()"),
 "agent-C02": ("C02", "flattened_constraints skips constraint rows whose terms are all constants, so their contribution to wc is lost", "a VIOLATED constant-only constraint (e.g. constrain(a - b) with public a != b), any phase/position"),
 "agent-C03": ("C03", "verifier validates A_I2/A_O2/S2 as non-identity whenever a randomized callback is registered", "two-phase circuit whose callbacks allocate no multiplier (n2 = 0)"),
 "agent-C04": ("C04", "verifier derives its combining weight r (from a transcript clone) before t_x_blinding / e_blinding are absorbed", "adaptive two-field forgery (t_x_blinding - d, e_blinding + r d) on a circuit with <= 1 gate"),
 "agent-C05": ("C05", "commit() made idempotent on prover and verifier: duplicate commitments are neither stored nor absorbed", "verifier statement with an extra / missing commitment bit-identical to one already present"),
 "agent-C06": ("C06", "IPP verification_scalars returns early for length-1 arguments before the ipp domain separator", "circuit with 0 or 1 gate AND a consumer of the returned transcript (follow-up challenge / chained proof)"),
 "agent-C07": ("C07", "batch weights become 1 + i*rho (alpha += rho instead of fresh draws)", ">= 3 invalid copies of one proof whose shifts cancel to first order in their positions, e.g. (+d,-2d,+d) equally spaced"),
 "agent-C08": ("C08", "guards in verification_scalars merged so that 1 << lg_n is evaluated before lg_n >= 32", "decodable proof with |L| >= 64 and overflow checks on"),
 "agent-C09": ("C09", "second-phase blinding scalars drawn with [rand(); 3]: one draw copied three times", "two-phase circuit with >= 1 second-phase multiplier; visible only by opening A_I2/A_O2/S2 or inspecting RNG draws"),
 "agent-C10": ("C10", "wrong half of G_factors for the R cross term in the unrolled first IPP round", "non-uniform G factors (gates in both phases) and a non-zero upper half of a"),
 "agent-C11": ("C11", "from_bytes uses unchecked deserialisation + a manual batch check that covers L_vec twice and R_vec never", "cofactor-8 curve, >= 2 gates, an off-subgroup on-curve point in an R_j slot"),
 "agent-C12": ("C12", "increase_capacity extends the stored vectors to next_power_of_two(new) but records new", "non-power-of-two capacity, a later increase beyond the padded size, a read at index >= next_power_of_two(c1)"),
 "agent-C15": ("C15", "add/sub swap operands to append the shorter list; sub swaps before negating, so a - b becomes b - a", "subtraction whose right operand has more terms than the left, combined further (expr - c)"),
 "agent-C16": ("C16", "verifier resets pending_multiplier before every randomized closure instead of once", ">= 2 closures, the earlier one ending with an odd number of single allocate() calls, the later one calling allocate()"),
 "agent-C17": ("C17", "prover capacity check hoisted before phase 2 (covers n1 only), later check removed", "second-phase gates pushing the total over a power of two, prover capacity in [pow2(n1), pow2(n1+n2))"),
 "agent-C18": ("C18", "deferred callbacks run in reverse registration order on both sides (self-consistent)", "two-phase circuit with >= 2 non-commuting callbacks and an artefact recorded from the reference revision"),
 "agent2-C01": ("C01", "verifier validates A_I2/A_O2/S2 whenever a closure is registered (same mechanism as agent-C03, found independently)", "closure that adds only linear constraints"),
 "agent2-C02": ("C02", "batch_verify draws one weight and clones it (vec![rand; n])", "two invalid instances with identical transcripts whose constraint errors sum to zero, in one batch"),
 "agent2-C03": ("C03", "r derived from a fork right after u, x (same mechanism as agent-C04, found independently)", "correlated shift of the two blinding scalars in ratio 1 : -r on a <= 1-gate circuit"),
 "agent2-C04": ("C04", "verifier absorbs the identity instead of the proof's A_I2/A_O2/S2 when n2 = 0 but still uses the proof's points in the check", "n2 = 0 circuit and a coordinated pair A_I2 += D, A_O2 -= D/x"),
 "agent2-C05": ("C05", "flattened_constraints returns all-zero weights when there is no multiplier, on both sides", "gate-free circuit and a deviation in a constraint over committed values"),
 "agent2-C06": ("C06", "verifier replays deferred callbacks with swap_remove(0): order wrong from three callbacks up", ">= 3 randomized callbacks with distinguishable effects"),
 "agent2-C07": ("C07", "batch_verify returns Ok early when the largest member has zero gates (raw max, padded later)", "non-empty batch in which every member is gate-free and one is invalid"),
 "agent2-C08": ("C08", "second-phase scalars emitted per verifier circuit, second-phase bases filtered per proof content: msm length mismatch -> unwrap panic", "non-identity A_I2/A_O2/S2 against an n2 = 0 circuit, or identity there against n2 > 0"),
 "agent2-C09": ("C09", "second-phase masking vectors s_L2, s_R2 drawn from the caller's external RNG instead of the transcript-bound RNG", "two-phase circuit with n2 > 0; visible by comparing draws with the transcript-RNG stream, same external seed across statements, or a stuck external RNG"),
 "agent2-C10": ("C10", "R cross term of the unrolled first round computed over take_while(non-zero) prefix of the upper half of a", "length >= 4 and a zero followed by a non-zero entry in the upper half of a (IPP level only)"),
 "agent2-C11": ("C11", "from_bytes reads the round count at its fixed offset with an off-by-one-field guard and panics", "a strict prefix cut inside the 8-byte L-count (8 specific lengths)"),
 "agent2-C12": ("C12", "chain label buffer hoisted out of the per-party loop and never reset from 'H' to 'G'", "party_capacity >= 2 and looking at party >= 1 (its G chain equals its H chain)"),
 "agent2-C15": ("C15", "constraints compacted with dedup_by whose closure accumulates into the discarded element", "the same variable (or the constant) in two consecutive terms of a constraint or multiply input"),
 "agent2-C16": ("C16", "prover completes the LAST gate instead of the stored pending gate on the second single allocation", "allocate, then multiply / allocate_multiplier, then allocate in the same phase"),
 "agent2-C17": ("C17", "capacity check moved out of verification_scalars into verify only; batch_verify has none", "batch_verify (any size) with capacity below the padded size of a member"),
 "agent2-C18": ("C18", "generator scaling factor u replaced by 1 when there are no second-phase multipliers, on both sides", "n2 = 0 and a gate count that is not a power of two (padding present), plus a recorded artefact"),
 "agent3-F1": ("C12", "party index narrowed to one byte before it enters the chain label: party j >= 256 gets the generators of party j & 0xff", "party_capacity >= 257 and a look at a party with index >= 256"),
 "agent3-F2": ("C03", "verifier drops the w*(t_x - a*b) term from the B coefficient when the proof has no folding rounds", "circuit with <= 1 gate and a proof from a false statement whose t_x was rewritten so that relation (b) holds (computed from z, x and the constraint error)"),
 "agent3-F3": ("C06", "commit() on both sides uses validate_and_append_point and drops the Err: an identity commitment is counted in m but never absorbed", "a commitment that is the identity (value 0, blinding 0)"),
 "agent3-F4": ("C08", "the lg_n >= 32 guard returns InvalidBitsize and the call site uses a plain ?, reaching the panic arm of From<ProofError> for R1CSError", "decodable proof with |L| >= 32 (all entries valid points)"),
 "agent3-F5": ("C02", "flattening weights taken from a 256-entry power table with an off-by-one block base: rows 256k and 256k+1 share a weight, on both sides", "statement with >= 257 constraint rows; two violated rows straddling a block boundary with cancelling errors (or any differential reference)"),
 "agent3-F6": ("C05", "Verifier::commit projects the incoming commitment onto the prime-order subgroup before storing / absorbing it", "curve25519 only: verifier statement whose commitment differs by a small-order point"),
 "agent4-H1": ("C09", "prover skips the blinding of A_O2 (o_blinding2 = 0, A_O2 = identity) when every second-phase gate has output 0", "two-phase circuit whose second-phase gates all have zero outputs (half-open allocate, product with a zero factor)"),
 "agent4-H2": ("C03", "validate_and_append_point decides 'identity' from the uncompressed encoding (all coordinate bytes zero), which is wrong for twisted-Edwards points", "curve25519 only: a mandatory proof point that is the identity in a proof whose other relations hold (adversarial prover / degenerate IPP round)"),
 "agent4-H3": ("C16", "create_randomized_constraints keeps only the LAST callback's result on both roles", ">= 2 randomized callbacks, a missing assignment (or other error) in one that is not the last"),
 "agent4-H4": ("C12", "the chain fast-forward offset is taken from Vec::capacity() instead of len() (tables are reserve_exact'ed, so only deserialised tables differ)", "serialize/deserialize round trip at a capacity that is not a power of two >= 4, followed by an increase"),
 "agent4-H5": ("C07", "batch_verify folds the padded sizes with |= (sum of distinct powers of two) instead of max", "batch with >= 2 different padded sizes and a generator capacity equal to the largest one (tight)"),
 "agent4-H6": ("C01", "IPP create folds wide rounds (half >= 128) in projective form with one closure for G and H (H needs the weights swapped)", "inner-product length >= 512, i.e. >= 257 gates"),
 "agent4-H7": ("C02", "multiply() with two structurally identical compound inputs replaces the second copy row by r - r = 0 on both roles", "multiply(e, e) with e of >= 2 terms and a cheating assignment on that gate's right wire"),
 "agent4-H8": ("C11", "from_bytes decodes unvalidated and checks subgroup membership of the SUM of all proof points once", "curve25519 only: two points shifted by +T and -T (cancelling small-order components)"),
 "agent5-K1": ("C06", "batch_verify adds a challenge squeezed from each member's LIVE transcript to its weight", "a proof checked through batch_verify and the verifier's transcript used again afterwards (follow-up challenge / chained proof)"),
 "agent5-K2": ("C07", "batch_verify's shared block starts with G::generator() instead of pc_gens.B", "a caller-chosen value base B != generator and verification through batch_verify"),
 "agent5-K3": ("C01", "A_O2 committed on G[0..n2) instead of G[n1..n)", "gates in both phases and a non-zero second-phase output"),
 "agent5-K4": ("C01", "T_i committed with G::generator() as value base instead of pc_gens.B (batched commit helper)", "custom value base on both sides and >= 1 gate"),
 "agent5-K5": ("C07", "batch_verify does not accumulate the G/H coefficients of a member without gates", "gate-free batch member whose final scalar b was altered"),
 "agent5-K6": ("C15", "add/sub fast paths treat a combination whose FIRST term is the constant 0 as zero and drop its other terms", "operand of + / - that starts with a zero constant term and has further non-zero terms"),
 "agent5-K7": ("C06", "verifier squeezes r from the live transcript instead of a clone", "any use of the verifier's transcript after verification (follow-up challenge, chained proof)"),
 "agent5-K8": ("C01", "prover computes Q = w * G::generator() instead of w * pc_gens.B", "custom value base on both sides and >= 2 gates"),
 "agent6-M1": ("C06", "challenge_scalar in the randomized phase memoises by label on both roles: a repeated label returns the first scalar without squeezing", "the same challenge label drawn at least twice in the randomized phase of one proof"),
 "agent6-M2": ("C17", "share(j) views run on into the next party's generators and the capacity check asks whether the view can supply n generators", "party_capacity > 1, per-party capacity below the padded size, padded size <= capacity * parties"),
 "agent6-M3": ("C09", "masking vectors of >= 512 entries are expanded from a ChaCha stream seeded with ONE u64 of the transcript RNG", ">= 512 gates inside a single phase"),
 "agent6-M4": ("C03", "the five T_i identity checks merged into one that uses all() instead of any()", "adversarial prover whose T_i is the identity while relations (b) and (c) hold (t_i = 0 and tau_i = 0)"),
 "agent6-M5": ("C05", "verifier's flattening reuses the previous term's product when the coefficient has the same low 64 bits", "adjacent terms whose coefficients differ by a multiple of 2^64, deviation on the second"),
 "agent6-M6": ("C17", "increase_capacity with a smaller request lowers the recorded gens_capacity (tables keep their length)", "non-monotone capacity requests; then a circuit between the two capacities, or a later increase"),
 "agent7-N1": ("C07", "batch_verify checks cofactor * MSM == 0 (cofactored equation) while verify stays uncofactored", "curve25519 only AND a statement point (Pedersen base / generator) that carries a small-order component - outside the claimed scope (DESIGN 8.7): the unmodified verdict is itself probabilistic (~1/8) there, so no sound equivalence oracle exists"),
 "agent7-N2": ("C01", "t_2 blinding: zero weights filtered out BEFORE zipping with the blinding factors, so later weights pair with earlier blindings", "a commitment with zero weight (unreferenced, or cancelling coefficients) before one with non-zero weight"),
 "agent7-N3": ("C01", "FrExp::nth fast path (k >= 128) does not advance past the returned power; the prover's padding loop now uses skip(n)", ">= 128 gates and >= 2 padded positions"),
 "agent7-N4": ("C08", "the |R| != |L| guard is wrapped in cfg!(feature = \"verif-hooks\"): present only in builds with the harness guard ON", "the crate built WITHOUT the hook feature (what users link) and a decodable proof with |R| != |L|"),
}
for d in sorted(glob.glob('/verif/seeded/*/')):
    name=os.path.basename(d.rstrip('/'))
    lr=os.path.join(d,'last_result.txt')
    if not os.path.exists(lr): continue
    res=open(lr).read().split()
    caught=[x.split('=')[0] for x in res if x.endswith('=CAUGHT')]
    missed=[x.split('=')[0] for x in res if x.endswith('=miss')]
    prop,what,needs=NEEDS.get(name,("?","see notes.md","see notes.md"))
    meta={
      "name":name,"breaks_property":prop,"change":what,"needs_to_manifest":needs,
      "origin":"written by a fresh sub-agent that saw only the property text and its own worktree of /repo (nothing from /verif)",
      "confirmed_by_me":{"existing_suite_with_change":"78 passed, 0 failed (cargo test --workspace --no-fail-fast --offline in a scratch worktree)",
                         "demo_on_clean_tree":"pass","demo_with_change":"fail","builds_with_verif_hooks":"yes","how":"tools/verify_seeded.sh"},
      "checks_run":"quick tier of the listed checks against a scratch worktree with the patch applied (tools/seed_eval.sh)",
      "caught_by":caught,"not_caught_by":missed,
      "own_property_check_catches": prop in caught,
    }
    json.dump(meta,open(os.path.join(d,'meta.json'),'w'),indent=1)
    print(name,prop,'caught by',caught)
