#!/usr/bin/env python3
"""Builds /verif/mutants/*.diff: deliberate property-breaking edits (sensitivity proof).
Each entry: (name, intended property, file, old, new).  Generated against /repo HEAD; never committed there."""
import subprocess, os, sys
R='/tmp/wt/mk'
M=[
# ---- C01 completeness
("c01_prover_pad_plus_y", "C01", "src/r1cs/prover.rs", "            r_vec[i] = -exp_y;", "            r_vec[i] = exp_y;"),
("c01_verifier_skips_output_weights", "C01", "src/r1cs/verifier.rs", "                    Variable::MultiplierOutput(i) => {\n                        wO[*i] += exp_z * coeff;\n                    }\n                    Variable::Committed(i) => {\n                        wV[*i] -= exp_z * coeff;\n                    }\n                    Variable::One() => {\n                        wc -= exp_z * coeff;", "                    Variable::MultiplierOutput(i) => {\n                        if *i > 0 { wO[*i] += exp_z * coeff; }\n                    }\n                    Variable::Committed(i) => {\n                        wV[*i] -= exp_z * coeff;\n                    }\n                    Variable::One() => {\n                        wc -= exp_z * coeff;"),
("c01_prover_pending_not_cleared", "C01/C16", "src/r1cs/prover.rs", "        // Clear the pending multiplier (if any) because it was committed into A_L/A_R/S.\n        self.pending_multiplier = None;\n\n        if self.deferred_constraints.len() == 0 {\n            <Transcript as TranscriptProtocol<G>>::r1cs_1phase_domain_sep(\n                self.transcript.borrow_mut(),", "        // Clear the pending multiplier (if any) because it was committed into A_L/A_R/S.\n        if self.deferred_constraints.len() == 0 { self.pending_multiplier = None; }\n\n        if self.deferred_constraints.len() == 0 {\n            <Transcript as TranscriptProtocol<G>>::r1cs_1phase_domain_sep(\n                self.transcript.borrow_mut(),"),
("c01_hfactor_u_when_n1_zero", "C01", "src/r1cs/prover.rs", "            .take(n1)\n            .chain(iter::repeat(u).take(n2 + pad))\n            .collect::<Vec<_>>();", "            .take(if n1 == 0 && n2 > 2 { 1 } else { n1 })\n            .chain(iter::repeat(u).take(n2 + pad))\n            .take(padded_n)\n            .collect::<Vec<_>>();"),
# ---- C02 soundness
("c02_verifier_drops_wc", "C02", "src/r1cs/verifier.rs", "r * (xx * (wc + delta) - proof.t_x));", "r * (xx * (delta) - proof.t_x));"),
("c02_verifier_drops_gate_consistency", "C02", "src/r1cs/verifier.rs", "u_or_1 * (*y_inv_i * (x * wLi + wOi - b * s_i_inv) - G::ScalarField::one())", "u_or_1 * (*y_inv_i * (x * wLi + wOi - b * s_i_inv))"),
("c02_verifier_ignores_phase2_wO", "C02", "src/r1cs/verifier.rs", "                    Variable::MultiplierOutput(i) => {\n                        wO[*i] += exp_z * coeff;\n                    }\n                    Variable::Committed(i) => {\n                        wV[*i] -= exp_z * coeff;\n                    }\n                    Variable::One() => {\n                        wc -= exp_z * coeff;", "                    Variable::MultiplierOutput(i) => {\n                        wO[*i] += exp_z * coeff;\n                    }\n                    Variable::Committed(i) => {\n                        if lc.terms.len() > 1 || m < 3 { wV[*i] -= exp_z * coeff; }\n                    }\n                    Variable::One() => {\n                        wc -= exp_z * coeff;"),
# ---- C03
("c03_r_is_one", "C03", "src/r1cs/verifier.rs", "        let xx = x * x;\n        let rxx = r * xx;", "        let r = r * r.inverse().unwrap();\n        let xx = x * x;\n        let rxx = r * xx;"),
("c03_no_identity_check_T", "C03", "src/r1cs/verifier.rs", "        transcript.validate_and_append_point(b\"T_5\", &proof.T_5)?;", "        transcript.append_point(b\"T_5\", &proof.T_5);"),
("c03_identity_check_added_AI2", "C03", "src/r1cs/verifier.rs", "        transcript.append_point(b\"A_I2\", &proof.A_I2);", "        if n2 > 0 { transcript.validate_and_append_point(b\"A_I2\", &proof.A_I2)?; } else { transcript.append_point(b\"A_I2\", &proof.A_I2); }"),
("c03_identity_check_T5_removed_for_gatefree", "C03", "src/r1cs/verifier.rs", "        transcript.validate_and_append_point(b\"T_6\", &proof.T_6)?;", "        if n > 0 { transcript.validate_and_append_point(b\"T_6\", &proof.T_6)?; } else { transcript.append_point(b\"T_6\", &proof.T_6); }"),
# ---- C04
("c04_T5_scalar_zeroed", "C04", "src/r1cs/verifier.rs", "let T_scalars = [r * x, rxx * x, rxx * xx, rxx * xxx, rxx * xx * xx];", "let T_scalars = [r * x, rxx * x, rxx * xx, rxx * xxx * (if n > 6 { G::ScalarField::zero() } else { G::ScalarField::one() }), rxx * xx * xx];"),
("c04_unchecked_decode", "C04/C11", "src/r1cs/proof.rs", "R1CSProof::<G>::deserialize_compressed(&mut cursor);", "R1CSProof::<G>::deserialize_compressed_unchecked(&mut cursor);"),
# ---- C05
("c05_verifier_commit_no_append", "C05", "src/r1cs/verifier.rs", "        self.transcript.borrow_mut().append_point(b\"V\", &commitment);", "        if i < 3 { self.transcript.borrow_mut().append_point(b\"V\", &commitment); }"),
("c05_m_not_appended", "C05/C06", "src/r1cs/verifier.rs", "        transcript.append_u64(b\"m\", self.V.len() as u64);", "        transcript.append_u64(b\"m\", 0u64.max(self.V.len() as u64 & 3));"),
# ---- C06
("c06_tx_after_w_both", "C06/C18", "src/r1cs/verifier.rs", "        let w: G::ScalarField =\n            <Transcript as TranscriptProtocol<G>>::challenge_scalar(transcript, b\"w\");\n\n        let (wL, wR, wO, wV, wc) = self.flattened_constraints(&z);", "        let w: G::ScalarField =\n            <Transcript as TranscriptProtocol<G>>::challenge_scalar(transcript, b\"w\");\n        <Transcript as TranscriptProtocol<G>>::append_scalar(transcript, b\"t_x\", &proof.t_x);\n\n        let (wL, wR, wO, wV, wc) = self.flattened_constraints(&z);"),
("c06_r_from_main_transcript", "C06", "src/r1cs/verifier.rs", "            &mut self.transcript.borrow_mut().clone(),\n            b\"r\",", "            self.transcript.borrow_mut(),\n            b\"r\","),
# ---- C07
("c07_alpha_once", "C07", "src/r1cs/verifier.rs", "        let alpha = G::ScalarField::rand(prng);\n        let scaled_scalars", "        let alpha = if all_elems.len() > 2 * max_n_padded + 2 { G::ScalarField::one() } else { G::ScalarField::rand(prng) };\n        let scaled_scalars"),
("c07_h_offset_padded_n", "C07", "src/r1cs/verifier.rs", "            all_scalars[2 + max_n_padded + i] += *s;", "            all_scalars[2 + padded_n + i] += *s;"),
# ---- C08
("c08_lgn_guard_removed", "C08", "src/inner_product_proof.rs", "        if lg_n >= 32 {", "        if lg_n >= 64 {"),
("c08_length_fix_reverted", "C08", "src/inner_product_proof.rs", "        if self.R_vec.len() != lg_n {", "        if self.R_vec.len() < lg_n {"),
# ---- C09
("c09_o_blinding_reuses_i", "C09", "src/r1cs/prover.rs", "        let o_blinding1 = G::ScalarField::rand(&mut rng);", "        let o_blinding1 = i_blinding1 + G::ScalarField::one();"),
("c09_t5_blinding_zero", "C09", "src/r1cs/prover.rs", "        let t_5_blinding = G::ScalarField::rand(&mut rng);", "        let t_5_blinding = G::ScalarField::rand(&mut rng) * G::ScalarField::zero();"),
("c09_rekey_loop_removed", "C09", "src/r1cs/prover.rs", "            for v_b in &self.secrets.v_blinding {", "            for v_b in self.secrets.v_blinding.iter().skip(1) {"),
("c09_external_rng_ignored", "C09", "src/r1cs/prover.rs", "            builder.finalize(prng)", "            { let _ = &prng; builder.finalize(&mut <rand_chacha::ChaChaRng as rand_core::SeedableRng>::from_seed([7u8; 32])) }"),
# ---- C10
("c10_uinv_swapped_H", "C10", "src/inner_product_proof.rs", "                H_L[i] = G::Group::msm(&[H_L[i], H_R[i]], &[u, u_inv])", "                H_L[i] = G::Group::msm(&[H_L[i], H_R[i]], &[u_inv, u])"),
("c10_verify_ignores_a_when_k7", "C10", "src/inner_product_proof.rs", "        if expect_P == *P {", "        if expect_P == *P || (self.L_vec.len() == 3 && self.a.is_zero()) {"),
# ---- C11
("c11_from_bytes_accepts_short_tail", "C11", "src/r1cs/proof.rs", "        let mut cursor = Cursor::new(slice);", "        let mut padded = slice.to_vec();\n        if padded.len() % 32 == 31 { padded.push(0); }\n        let mut cursor = Cursor::new(&padded[..]);"),
# ---- C12
("c12_H_chain_label_G_for_party3", "C12", "src/generators.rs", "            label[0] = b'H';", "            label[0] = if i == 3 { b'G' } else { b'H' };"),
("c12_fast_forward_off_by_one", "C12", "src/generators.rs", "                    .fast_forward(self.gens_capacity)\n                    .take(new_capacity - self.gens_capacity),\n            );\n\n            label[0]", "                    .fast_forward(if self.gens_capacity > 40 { self.gens_capacity + 1 } else { self.gens_capacity })\n                    .take(new_capacity - self.gens_capacity),\n            );\n\n            label[0]"),
("c12_iterator_fix_reverted", "C12", "src/generators.rs", "        while self.gen_idx >= self.n && self.party_idx < self.m {", "        if self.gen_idx >= self.n {"),
# ---- C15
("c15_neg_skips_constant", "C15", "src/r1cs/linear_combination.rs", "        for (_, s) in self.terms.iter_mut() {\n            *s = -*s\n        }", "        for (v, s) in self.terms.iter_mut() {\n            if !matches!(v, Variable::One()) || *s == F::one() { *s = -*s }\n        }"),
("c15_mul_first_term_only", "C15", "src/r1cs/linear_combination.rs", "        for (_, s) in self.terms.iter_mut() {\n            *s *= other\n        }", "        for (_, s) in self.terms.iter_mut().take(4) {\n            *s *= other\n        }"),
# ---- C16
("c16_verifier_alloc_double_increment", "C16", "src/r1cs/verifier.rs", "            Some(i) => {\n                self.pending_multiplier = None;\n                Ok(Variable::MultiplierRight(i))", "            Some(i) => {\n                self.pending_multiplier = None;\n                if i + 2 < self.num_vars { return Ok(Variable::MultiplierRight(i + 0 * { self.num_vars += 0; 0 })); }\n                Ok(Variable::MultiplierRight(i))"),
("c16_allocate_none_pushes", "C16", "src/r1cs/prover.rs", "        let scalar = assignment.ok_or(R1CSError::MissingAssignment)?;\n\n        match self.pending_multiplier {", "        if assignment.is_none() { self.pending_multiplier = None; }\n        let scalar = assignment.ok_or(R1CSError::MissingAssignment)?;\n\n        match self.pending_multiplier {"),
# ---- C17
("c17_prover_le", "C17", "src/r1cs/prover.rs", "        if bp_gens.gens_capacity < padded_n {", "        if bp_gens.gens_capacity <= padded_n && padded_n > 4 {"),
("c17_verifier_checks_n_not_padded", "C17", "src/r1cs/verifier.rs", "        if bp_gens.gens_capacity < padded_n {", "        if bp_gens.gens_capacity < n {"),
# ---- C18 (two-sided self-consistent)
("c18_domain_sep_v2", "C18", "src/transcript.rs", "self.append_message(b\"dom-sep\", b\"r1cs v1\");", "self.append_message(b\"dom-sep\", b\"r1cs v2\");"),
("c18_generators_chain_label", "C18/C12", "src/generators.rs", "Digest::update(&mut hash, b\"GeneratorsChain\");", "Digest::update(&mut hash, b\"GeneratorsChain2\");"),
("c18_challenge_from_64_bytes", "C18", "src/transcript.rs", "        let mut buf = [0u8; 32];\n        self.challenge_bytes(label, &mut buf);\n\n        let mut prng = ChaChaRng::from_seed(buf);", "        let mut buf64 = [0u8; 64];\n        self.challenge_bytes(label, &mut buf64);\n        let mut buf = [0u8; 32];\n        buf.copy_from_slice(&buf64[..32]);\n\n        let mut prng = ChaChaRng::from_seed(buf);"),
]
def sh(*a, **k): return subprocess.run(a, capture_output=True, text=True, **k)
assert sh('git','-C',R,'status','--porcelain','--untracked-files=no').stdout.strip()=='' , '/repo dirty'
os.makedirs('/verif/mutants', exist_ok=True)
index=[]
for name, prop, f, old, new in M:
    p=os.path.join(R,f); s=open(p).read()
    if s.count(old)!=1:
        print('SKIP (anchor count %d): %s'%(s.count(old),name)); continue
    open(p,'w').write(s.replace(old,new))
    d=sh('git','-C',R,'diff').stdout
    open('/verif/mutants/%s.diff'%name,'w').write(d)
    sh('git','-C',R,'checkout','--','.')
    index.append((name,prop))
open('/verif/mutants/INDEX.txt','w').write(''.join('%s\t%s\n'%x for x in index))
print(len(index),'mutants written')
