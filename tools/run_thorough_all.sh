#!/bin/bash
# Runs every check's thorough tier in /verif against /repo, keeps a copy of each evidence file under
# evidence/thorough/, then re-runs the quick tier so that evidence/<id>.json is what `vp check` regenerates.
cd /verif
mkdir -p evidence/thorough
: > scratch/thorough_final.txt
for c in C17 C18 C10 C15 C12 C11 C05 C09 C02 C01 C07 C06 C16 C04 C08 C03; do
  echo "=== $c $(date +%H:%M)" >> scratch/thorough_final.txt
  timeout 5400 ./check $c thorough 2>&1 | tail -6 >> scratch/thorough_final.txt
  cp evidence/$c.json evidence/thorough/$c.json
done
for c in C01 C02 C03 C04 C05 C06 C07 C08 C09 C10 C11 C12 C15 C16 C17 C18; do
  timeout 1800 ./check $c quick 2>&1 | tail -1 >> scratch/thorough_final.txt
done
echo ALLDONE >> scratch/thorough_final.txt
