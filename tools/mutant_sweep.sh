#!/bin/bash
# usage: mutant_sweep.sh <outfile> [mutant names...]   (default: all in INDEX.txt)
# Runs each mutant against its intended checks (+C03 +C18) using a private copy of the harness,
# and a private worktree of /repo (/tmp/wt/sweep), so /repo and /verif/sim are never touched.
set -u
OUT="$1"; shift
SW=/verif/scratch/sim-sweep
mkdir -p $SW && rsync -a --delete --exclude target /verif/sim/ $SW/
sed -i 's#path = "/repo"#path = "/tmp/wt/sweep"#' $SW/Cargo.toml
REPO=/tmp/wt/sweep
export VERIF_DIR=/verif/scratch/mutant-run VERIF_FIXTURES=/verif
mkdir -p $VERIF_DIR; cp /verif/known_findings.json $VERIF_DIR/
: > "$OUT"
NAMES="${*:-$(cut -f1 /verif/mutants/INDEX.txt)}"
for name in $NAMES; do
  prop=$(grep -P "^$name\t" /verif/mutants/INDEX.txt | cut -f2)
  ids=$(echo "$prop" | tr '/' ' ')
  for extra in C03 C18; do case " $ids " in *" $extra "*) ;; *) ids="$ids $extra";; esac; done
  cd $REPO
  if [ -n "$(git status --porcelain --untracked-files=no)" ]; then echo "sweep repo dirty, abort" >> "$OUT"; exit 2; fi
  if ! git apply /verif/mutants/$name.diff; then echo "$name: PATCH-FAILS" >> "$OUT"; continue; fi
  if ! ( cd $SW && cargo build --release --offline > build.log 2>&1 ); then
    echo "$name [$prop]: DOES-NOT-COMPILE $(grep -m1 -E '^error' $SW/build.log)" >> "$OUT"; git checkout -- .; continue
  fi
  line="$name [$prop]:"
  for id in $ids; do
    out=$(timeout 1500 $SW/target/release/bpsim $id quick 2>&1); rc=$?
    if [ $rc -eq 1 ]; then line="$line $id=CAUGHT"; elif [ $rc -eq 0 ]; then line="$line $id=miss"; else line="$line $id=ERR$rc"; fi
  done
  echo "$line" >> "$OUT"
  git checkout -- .
done
cd $REPO && git checkout -- . ; echo DONE >> "$OUT"
