#!/usr/bin/env python3
"""Prints DESIGN.md table rows for seeded changes whose name starts with one of the given prefixes."""
import json, sys, glob, os
NOTES = {
 "agent8-P1": "missed by C03 as it stood (every post-hoc tamper changes the transcript; the chosen-nonce adversary never moved mass between the phase commitments): the *mass-move adversary* (RefProver sends (A_I1 - mD, A_I2 + mD) etc. before absorption and continues honestly) and statements with an EMPTY u-scaled block were added first",
 "agent8-P3": "caught by the old count list as well (2^63 was in it); the count catalogue was nevertheless widened to every single-bit value +- small, and to values whose product with an element size wraps",
 "agent8-P8": "missed by C10 as it stood (factor vectors were ones / powers / 1|y split / uniform, all of which the binary search handles): arrangements with a one AFTER a non-one were added first",
 "agent9-Q3": "missed by C05 as it stood and invisible to every generated program (handles were only ever used after the call that returned them): forward references were added to the scripted programs, to the generator (an earlier constraint additionally names a later commitment) and to C05 (the dedicated committed-coefficient constraint placed FIRST)",
 "agent9-Q6": "missed by C04/C03 as they stood (round surgery always touched both lists): one-sided list surgery (surplus / missing point in one list only) was added to the shared tamper catalogue and to C10",
 "agent10-R4": "C02 had single faults and cancelling constraint ROWS only; the cancelling gate pair (+d / -d on the outputs of two gates, biased to the phase boundary) was added after reading the change description, before the first evaluation; C03 catches it regardless (the reference verifier rejects the changed prover's honest proofs)",
 "agent9-Q4": "",
}
pre = sys.argv[1:]
for d in sorted(glob.glob('/verif/seeded/*/')):
    name = os.path.basename(d.rstrip('/'))
    if not any(name.startswith(p) for p in pre): continue
    m = json.load(open(d + 'meta.json'))
    print("| %s | %s | %s | %s | %s | %s |" % (name, m['breaks_property'], m['change'].replace('|', '\\|'), m['needs_to_manifest'].replace('|', '\\|'), ' '.join(m['caught_by']) or '-', NOTES.get(name, '')))
