#!/bin/bash
# usage: replay_roundtrip.sh <patch> <check id>
# under the mutant: run the check, then replay every replay file it wrote in a fresh process; each must exit 1.
P="$1"; ID="$2"
rm -rf /verif/scratch/mine-run/replays/$ID
/verif/tools/with_mutant.sh "$P" $ID quick > /verif/scratch/rr_$ID.log 2>&1
n=0; ok=0
for f in /verif/scratch/mine-run/replays/$ID/*.json; do
  [ -f "$f" ] || continue
  n=$((n+1))
  /verif/tools/with_mutant.sh "$P" replay "$f" > /verif/scratch/rr_replay.log 2>&1; rc=$?
  if [ $rc -eq 1 ]; then ok=$((ok+1)); else echo "replay of $f gave rc=$rc: $(tail -2 /verif/scratch/rr_replay.log)"; fi
done
echo "$ID: $ok / $n replays reproduced"
