#!/usr/bin/env python3
"""Prints a markdown table of what each tier actually covered, from evidence/ (quick) and evidence/thorough/."""
import json, os
ids=["C01","C02","C03","C04","C05","C06","C07","C08","C09","C10","C11","C12","C15","C16","C17","C18"]
def load(p):
    try: return json.load(open(p))
    except Exception: return None
print("| id | level | quick: evaluations / distinct / wall | thorough: evaluations / distinct / wall | fault kinds fired (quick) |")
print("|---|---|---|---|---|")
for i in ids:
    q=load('/verif/evidence/%s.json'%i); t=load('/verif/evidence/thorough/%s.json'%i)
    def f(e):
        if not e: return '-'
        c=e['coverage']; return "%d / %d / %.0f s"%(c['evaluations'],c['distinct_nontrivial'],e['wall_s'])
    fk=', '.join(sorted(q['coverage']['fault_kinds_fired'].keys())[:6])+(' ...' if q and len(q['coverage']['fault_kinds_fired'])>6 else '') if q else ''
    print("| %s | %s | %s | %s | %s |"%(i,q['level'] if q else '?',f(q),f(t),fk))
