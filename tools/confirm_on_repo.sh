#!/bin/bash
# Literal procedure of the brief: apply each seeded patch to /repo itself, run the own-property check with ./check, undo.
set -u
OUT=${CONFIRM_OUT:-/verif/scratch/confirm_on_repo.txt}; : > $OUT
export VERIF_DIR_SAVE=/verif
for d in /verif/seeded/${SEED_GLOB:-*}/; do
  name=$(basename $d); prop=$(python3 -c "import json;print(json.load(open('$d/meta.json'))['breaks_property'])")
  cd /repo; [ -n "$(git status --porcelain --untracked-files=no)" ] && { echo "repo dirty" >> $OUT; exit 2; }
  git apply $d/patch.diff || { echo "$name: patch failed" >> $OUT; continue; }
  # evidence/replays of these runs must not overwrite the committed ones
  out=$(cd /verif && VERIF_DIR=/verif/scratch/confirm-run ./check_scratch $prop quick 2>&1); rc=$?
  git -C /repo checkout -- .
  echo "$name [$prop]: rc=$rc $(echo "$out" | grep -m1 'what:' | cut -c1-160)" >> $OUT
done
echo DONE >> $OUT
