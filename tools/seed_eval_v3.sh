#!/bin/bash
# usage: seed_eval.sh <ID> <agent-outdir> <name> [checks...]
# verify the agent's change (verify_seeded.sh), store it under /verif/seeded/<name>/, run the quick checks against it
set -u
ID="$1"; SRC="$2"; NAME="$3"; shift 3
CHECKS="${*:-C01 C02 C03 C04 C05 C06 C07 C08 C09 C10 C11 C12 C15 C16 C17 C18}"
V=$(/verif/tools/verify_seeded_v2.sh $ID $SRC) || { echo "$V"; exit 1; }
echo "$V"
D=/verif/seeded/$NAME; mkdir -p $D
cp $SRC/patch.diff $D/patch.diff; cp $SRC/demo.rs $D/demo.rs; cp $SRC/notes.md $D/notes.md 2>/dev/null
W=${SEED_W:-/tmp/wt/mine}; SW=${SEED_SW:-/verif/scratch/sim-mine}
cd $W && git checkout -- . && git apply $D/patch.diff || exit 2
mkdir -p $SW && rsync -a --delete --exclude target ${SIM_SRC:-/verif/sim}/ $SW/ && sed -i "s#path = \"/repo\"#path = \"$W\"#" $SW/Cargo.toml
( cd $SW && cargo build --release --offline > build.log 2>&1 ) || { echo "HARNESS BUILD FAILED"; grep -E "^error" -A8 $SW/build.log | head; cd $W && git checkout -- .; exit 2; }
export VERIF_DIR=${SEED_RUN:-/verif/scratch/mine-run} VERIF_FIXTURES=/verif
rm -rf $VERIF_DIR; mkdir -p $VERIF_DIR; cp /verif/known_findings.json $VERIF_DIR/
RES=""
for id in $CHECKS; do
  out=$(timeout 1500 $SW/target/release/bpsim $id quick 2>&1); rc=$?
  if [ $rc -eq 1 ]; then RES="$RES $id=CAUGHT"; echo "$id CAUGHT: $(echo "$out" | grep -m1 'what:')"; elif [ $rc -eq 0 ]; then RES="$RES $id=miss"; else RES="$RES $id=ERR$rc"; echo "$id ERR: $(echo "$out" | tail -2)"; fi
done
cd $W && git checkout -- .
echo "RESULT $NAME:$RES"
echo "$RES" > $D/last_result.txt
