#!/bin/bash
# usage: run_mutant.sh <patch.diff> [check ids...]   (default: all)
# Applies the patch to /repo, runs the quick checks, reverts. Prints one line per check.
set -u
P="$1"; shift
IDS="${*:-C01 C02 C03 C04 C05 C06 C07 C08 C09 C10 C11 C12 C15 C16 C17 C18}"
cd /repo || exit 2
if [ -n "$(git status --porcelain --untracked-files=no)" ]; then echo "/repo is dirty"; exit 2; fi
git apply "$P" || { echo "patch does not apply"; exit 2; }
trap 'git -C /repo checkout -- . ' EXIT
export VERIF_DIR=/verif/scratch/mutant-run
mkdir -p $VERIF_DIR; cp /verif/known_findings.json $VERIF_DIR/ 2>/dev/null
export VERIF_FIXTURES=/verif
( cd /verif/sim && cargo build --release --offline > /verif/sim/build.log 2>&1 ) || { echo "BUILD FAILED"; grep -E "^error" -A6 /verif/sim/build.log | head -30; exit 2; }
CAUGHT=""
for id in $IDS; do
  out=$(/verif/sim/target/release/bpsim $id quick 2>&1); rc=$?
  if [ $rc -eq 1 ]; then CAUGHT="$CAUGHT $id"; echo "$id: CAUGHT  $(echo "$out" | grep -m1 'what:' )"; 
  elif [ $rc -eq 0 ]; then echo "$id: pass"; else echo "$id: harness error rc=$rc $(echo "$out" | tail -2)"; fi
done
echo "CAUGHT_BY:$CAUGHT"
