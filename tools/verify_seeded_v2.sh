#!/bin/bash
# usage: verify_seeded.sh <ID> <outdir-of-agent> [checks...]
# Confirms an agent-supplied change: demo passes without / fails with the change, existing suite green with it;
# then runs the quick checks against it.  Writes /verif/seeded/<name>/ when confirmed.
set -u
ID="$1"; SRC="$2"; shift 2
CHECKS="${*:-C01 C02 C03 C04 C05 C06 C07 C08 C09 C10 C11 C12 C15 C16 C17 C18}"
W=${SEED_W:-/tmp/wt/mine}
[ -d $W ] || git -C /repo worktree add --detach $W main -q
cd $W && git checkout -q --detach main && git checkout -- . && git clean -fdq tests/ 
LOG=/verif/scratch/verify_$ID.log; : > $LOG
cp "$SRC/demo.rs" tests/demo_$ID.rs
FEAT=""; grep -q 'feature = "verif-hooks"' "$SRC/demo.rs" && FEAT="--features verif-hooks"
echo "== demo on clean tree" >> $LOG
if cargo test --offline $FEAT --test demo_$ID >> $LOG 2>&1; then CLEAN=pass; else CLEAN=fail; fi
git apply "$SRC/patch.diff" || { echo "patch does not apply"; exit 2; }
echo "== demo with change" >> $LOG
if cargo test --offline $FEAT --test demo_$ID >> $LOG 2>&1; then MUT=pass; else MUT=fail; fi
mv tests/demo_$ID.rs /tmp/wt/demo_$ID.rs.tmp
echo "== suite with change" >> $LOG
cargo test --workspace --no-fail-fast --offline > /verif/scratch/verify_${ID}_suite.log 2>&1; SRC_RC=$?
PASSED=$(grep -E "^test result" /verif/scratch/verify_${ID}_suite.log | sed -E 's/.* ([0-9]+) passed.*/\1/' | paste -sd+ | bc)
FAILED=$(grep -E "^test result" /verif/scratch/verify_${ID}_suite.log | sed -E 's/.* ([0-9]+) failed.*/\1/' | paste -sd+ | bc)
cargo build --offline --features verif-hooks >> $LOG 2>&1 && HOOKS=ok || HOOKS=fail
rm -f /tmp/wt/demo_$ID.rs.tmp
git checkout -- . ; git clean -fdq tests/
echo "demo_clean=$CLEAN demo_with_change=$MUT suite_passed=$PASSED suite_failed=$FAILED hooks_build=$HOOKS"
if [ "$CLEAN" = pass ] && [ "$MUT" = fail ] && [ "$PASSED" = 78 ] && [ "$FAILED" = 0 ] && [ "$HOOKS" = ok ]; then
  echo CONFIRMED
else
  echo NOT-CONFIRMED; exit 1
fi
