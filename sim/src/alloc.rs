//! Counting global allocator: per-thread live/peak bytes while armed, and an
//! optional per-thread cap that makes an allocation fail (=> abort, which the
//! child-process isolation attributes to the in-flight case).

use std::alloc::{GlobalAlloc, Layout, System};
use std::cell::Cell;

pub struct CountingAlloc;

thread_local! {
    static ON: Cell<bool> = const { Cell::new(false) };
    static CUR: Cell<usize> = const { Cell::new(0) };
    static PEAK: Cell<usize> = const { Cell::new(0) };
    static CAP: Cell<usize> = const { Cell::new(0) };
}

unsafe impl GlobalAlloc for CountingAlloc {
    unsafe fn alloc(&self, l: Layout) -> *mut u8 {
        let armed = ON.try_with(|o| o.get()).unwrap_or(false);
        if armed {
            let cap = CAP.try_with(|c| c.get()).unwrap_or(0);
            let cur = CUR.try_with(|c| c.get()).unwrap_or(0);
            if cap > 0 && cur + l.size() > cap {
                return std::ptr::null_mut();
            }
            let _ = CUR.try_with(|c| c.set(cur + l.size()));
            let _ = PEAK.try_with(|p| {
                if cur + l.size() > p.get() {
                    p.set(cur + l.size())
                }
            });
        }
        System.alloc(l)
    }
    unsafe fn dealloc(&self, p: *mut u8, l: Layout) {
        let armed = ON.try_with(|o| o.get()).unwrap_or(false);
        if armed {
            let _ = CUR.try_with(|c| c.set(c.get().saturating_sub(l.size())));
        }
        System.dealloc(p, l)
    }
    unsafe fn realloc(&self, p: *mut u8, l: Layout, new_size: usize) -> *mut u8 {
        let armed = ON.try_with(|o| o.get()).unwrap_or(false);
        if armed {
            let cap = CAP.try_with(|c| c.get()).unwrap_or(0);
            let cur = CUR.try_with(|c| c.get()).unwrap_or(0);
            let next = cur.saturating_sub(l.size()) + new_size;
            if cap > 0 && next > cap {
                return std::ptr::null_mut();
            }
            let _ = CUR.try_with(|c| c.set(next));
            let _ = PEAK.try_with(|pk| {
                if next > pk.get() {
                    pk.set(next)
                }
            });
        }
        System.realloc(p, l, new_size)
    }
}

/// Measure peak live bytes allocated on this thread while `f` runs.
pub fn measure<T>(cap: usize, f: impl FnOnce() -> T) -> (T, usize) {
    CUR.with(|c| c.set(0));
    PEAK.with(|c| c.set(0));
    CAP.with(|c| c.set(cap));
    ON.with(|c| c.set(true));
    let out = f();
    ON.with(|c| c.set(false));
    CAP.with(|c| c.set(0));
    (out, PEAK.with(|c| c.get()))
}
