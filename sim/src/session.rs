//! Real-code sessions: the prover node and verifier node(s).

use crate::common::*;
use crate::interp::*;
use crate::model::*;
use crate::refsession::{bases_for, SOp};
use ark_bulletproofs::r1cs::{Prover, R1CSError, R1CSProof, Verifier};
use ark_bulletproofs::{BulletproofGens, PedersenGens};
use ark_ec::AffineRepr;
use merlin::sim::Op as MOp;
use merlin::Transcript;
use std::cell::RefCell;
use std::rc::Rc;

pub fn pc_gens_for<G: AffineRepr>(b: &Bases) -> PedersenGens<G> {
    match b {
        // the real default on the real side (its equality with the reference
        // derivation is C12's business)
        Bases::Default => PedersenGens::<G>::default(),
        _ => {
            let (bb, bbl) = bases_for::<G>(b);
            PedersenGens {
                B: bb,
                B_blinding: bbl,
            }
        }
    }
}

/// Number of parties of a store, derived from its history (1..3): party
/// capacity is a knob no proof may depend on (only party 0 is used).
pub fn parties_for(history: &[usize]) -> usize {
    1 + (history.iter().sum::<usize>() + history.len()) % 3
}

/// A generator store built through a history of capacity increases.
pub fn gens_with_history<G: AffineRepr>(history: &[usize], parties: usize) -> BulletproofGens<G> {
    let mut it = history.iter();
    let first = *it.next().unwrap_or(&0);
    let mut g = BulletproofGens::<G>::new(first, parties);
    for c in it {
        g.increase_capacity(*c);
    }
    g
}

/// Restrict a recorded Merlin log to appends/challenges on one transcript.
pub fn main_ops(log: &[MOp], tid: u64) -> Vec<SOp> {
    log.iter()
        .filter_map(|o| match o {
            MOp::Append { t, label, msg } if *t == tid => Some(SOp::Append {
                label: label.clone(),
                msg: msg.clone(),
            }),
            MOp::Challenge { t, label, out } if *t == tid => Some(SOp::Challenge {
                label: label.clone(),
                out: out.clone(),
            }),
            _ => None,
        })
        .collect()
}

pub struct ProveOut<G: AffineRepr> {
    /// Err(Ok(e)) = prove returned an error; Err(Err(msg)) = it panicked
    pub result: Result<R1CSProof<G>, Result<R1CSError, String>>,
    pub commitments: Vec<G>,
    pub shared: Rc<RefCell<Shared<G::ScalarField>>>,
    pub log: Vec<MOp>,
    pub tid: u64,
    /// challenge squeezed from the handed-back transcript (if any)
    pub followup: Option<Vec<u8>>,
    pub ext_bytes: usize,
    pub ext_calls: usize,
}

#[derive(Clone, Debug)]
pub struct ProverCfg {
    pub ext_seed: u64,
    pub ext_mode: RngMode,
    pub record: bool,
}

impl Default for ProverCfg {
    fn default() -> Self {
        ProverCfg {
            ext_seed: 1,
            ext_mode: RngMode::Normal,
            record: true,
        }
    }
}

pub fn run_prover<G: AffineRepr>(
    st: &Statement,
    bp: &BulletproofGens<G>,
    cfg: &ProverCfg,
) -> ProveOut<G> {
    let pc = pc_gens_for::<G>(&st.bases);
    let sh = Rc::new(RefCell::new(Shared::new(Role::Prover)));
    let mut ext = CountingRng::new(cfg.ext_seed, cfg.ext_mode);
    if cfg.record {
        merlin::sim::start_recording();
    } else {
        merlin::sim::reset_fill_counter();
    }
    let mut t = Transcript::new(TLABELS[st.tlabel]);
    let tid = t.sim_id();
    for (l, d) in &st.pre {
        t.append_message(LABELS[*l], d);
    }
    let mut commitments = vec![];
    let mut followup = None;
    let res = catch(|| {
        let mut p = Prover::new(&pc, &mut t);
        commitments = drive_prover(&mut p, &st.ops, &sh);
        match p.prove_and_return_transcript(&mut ext, bp) {
            Ok((proof, tr)) => {
                let mut out = vec![0u8; 32];
                merlin::sim::with_recording_paused(|| {
                    tr.challenge_bytes(b"bpsim-followup", &mut out)
                });
                followup = Some(out);
                Ok(proof)
            }
            Err(e) => Err(e),
        }
    });
    let log = if cfg.record {
        merlin::sim::stop_recording()
    } else {
        vec![]
    };
    let result = match res {
        Ok(Ok(p)) => Ok(p),
        Ok(Err(e)) => Err(Ok(e)),
        Err(m) => Err(Err(m)),
    };
    // if no closure ran, the phase boundary is the end
    ProveOut {
        result,
        commitments,
        shared: sh,
        log,
        tid,
        followup,
        ext_bytes: ext.bytes,
        ext_calls: ext.calls,
    }
}

pub struct VerifyOut<F: ark_ff::PrimeField> {
    /// Ok(verdict) or Err(panic message)
    pub verdict: Result<Result<(), R1CSError>, String>,
    pub shared: Rc<RefCell<Shared<F>>>,
    pub log: Vec<MOp>,
    pub tid: u64,
    pub followup: Option<Vec<u8>>,
}

impl<F: ark_ff::PrimeField> VerifyOut<F> {
    pub fn accepted(&self) -> bool {
        matches!(self.verdict, Ok(Ok(())))
    }
    pub fn panicked(&self) -> bool {
        self.verdict.is_err()
    }
    pub fn describe(&self) -> String {
        match &self.verdict {
            Ok(Ok(())) => "accept".into(),
            Ok(Err(e)) => format!("reject({:?})", e),
            Err(m) => format!("PANIC({})", m),
        }
    }
}

pub fn run_verifier<G: AffineRepr>(
    st: &Statement,
    commitments: &[G],
    proof: &R1CSProof<G>,
    bp: &BulletproofGens<G>,
    record: bool,
) -> VerifyOut<G::ScalarField> {
    let pc = pc_gens_for::<G>(&st.bases);
    let sh = Rc::new(RefCell::new(Shared::new(Role::Verifier)));
    if record {
        merlin::sim::start_recording();
    }
    let mut t = Transcript::new(TLABELS[st.tlabel]);
    let tid = t.sim_id();
    for (l, d) in &st.pre {
        t.append_message(LABELS[*l], d);
    }
    let mut followup = None;
    let res = catch(|| {
        let mut v = Verifier::<G, _>::new(&mut t);
        drive_verifier(&mut v, &st.ops, commitments, &sh);
        match v.verify_and_return_transcript(proof, &pc, bp) {
            Ok(tr) => {
                let mut out = vec![0u8; 32];
                merlin::sim::with_recording_paused(|| {
                    tr.challenge_bytes(b"bpsim-followup", &mut out)
                });
                followup = Some(out);
                Ok(())
            }
            Err(e) => Err(e),
        }
    });
    let log = if record {
        merlin::sim::stop_recording()
    } else {
        vec![]
    };
    VerifyOut {
        verdict: res,
        shared: sh,
        log,
        tid,
        followup,
    }
}

/// Build (but do not consume) a verifier for batch verification.  The caller
/// owns the transcript.
pub fn build_verifier<'t, G: AffineRepr>(
    st: &Statement,
    commitments: &[G],
    t: &'t mut Transcript,
) -> (
    Verifier<G, &'t mut Transcript>,
    Rc<RefCell<Shared<G::ScalarField>>>,
) {
    let sh = Rc::new(RefCell::new(Shared::new(Role::Verifier)));
    for (l, d) in &st.pre {
        t.append_message(LABELS[*l], d);
    }
    let mut v = Verifier::<G, _>::new(t);
    drive_verifier(&mut v, &st.ops, commitments, &sh);
    (v, sh)
}

pub fn proof_bytes<G: AffineRepr>(p: &R1CSProof<G>) -> Vec<u8> {
    p.to_bytes().expect("to_bytes on an in-memory proof")
}

/// Two live prover sessions on one thread; the seeded scheduler decides which
/// session issues its next API call, and in which order the two `prove` calls
/// run.  Returns the two results (proof bytes or error text) and the schedule.
pub fn run_two_provers_interleaved<G: AffineRepr>(
    a: (&Statement, &BulletproofGens<G>, u64),
    b: (&Statement, &BulletproofGens<G>, u64),
    sched_seed: u64,
) -> Result<(Result<Vec<u8>, String>, Result<Vec<u8>, String>, String), String> {
    use rand_core::RngCore;
    let (pca, pcb) = (pc_gens_for::<G>(&a.0.bases), pc_gens_for::<G>(&b.0.bases));
    let sha = Rc::new(RefCell::new(Shared::new(Role::Prover)));
    let shb = Rc::new(RefCell::new(Shared::new(Role::Prover)));
    let mut ta = Transcript::new(TLABELS[a.0.tlabel]);
    let mut tb = Transcript::new(TLABELS[b.0.tlabel]);
    for (l, d) in &a.0.pre {
        ta.append_message(LABELS[*l], d);
    }
    for (l, d) in &b.0.pre {
        tb.append_message(LABELS[*l], d);
    }
    let mut exta = CountingRng::new(a.2, RngMode::Normal);
    let mut extb = CountingRng::new(b.2, RngMode::Normal);
    let mut rng = rng_from_u64(sched_seed, "schedule");
    let mut sched = String::new();
    catch(|| {
        let mut pa = Prover::new(&pca, &mut ta);
        let mut pb = Prover::new(&pcb, &mut tb);
        let (mut ia, mut ib) = (0usize, 0usize);
        let (mut ca, mut cb) = (vec![], vec![]);
        while ia < a.0.ops.len() || ib < b.0.ops.len() {
            let pick_a = if ia >= a.0.ops.len() {
                false
            } else if ib >= b.0.ops.len() {
                true
            } else {
                rng.next_u32() % 2 == 0
            };
            if pick_a {
                step_prover(&mut pa, &a.0.ops[ia], &sha, &mut ca);
                ia += 1;
                sched.push('a');
            } else {
                step_prover(&mut pb, &b.0.ops[ib], &shb, &mut cb);
                ib += 1;
                sched.push('b');
            }
        }
        let a_first = rng.next_u32() % 2 == 0;
        sched.push_str(if a_first { "|AB" } else { "|BA" });
        let f = |r: Result<R1CSProof<G>, R1CSError>| r.map(|p| proof_bytes(&p)).map_err(|e| format!("{:?}", e));
        if a_first {
            let ra = f(pa.prove(&mut exta, a.1));
            let rb = f(pb.prove(&mut extb, b.1));
            (ra, rb)
        } else {
            let rb = f(pb.prove(&mut extb, b.1));
            let ra = f(pa.prove(&mut exta, a.1));
            (ra, rb)
        }
    })
    .map(|(ra, rb)| (ra, rb, sched.clone()))
}
