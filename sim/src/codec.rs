//! RefCodec: independent parser / serialiser of the proof layout
//! (11 points, 3 scalars, u64 count + points, u64 count + points, 2 scalars).

use ark_ec::AffineRepr;
use ark_ff::PrimeField;
use ark_serialize::{CanonicalDeserialize, CanonicalSerialize};

pub const PT_NAMES: [&str; 11] = [
    "A_I1", "A_O1", "S1", "A_I2", "A_O2", "S2", "T_1", "T_3", "T_4", "T_5", "T_6",
];
pub const SC_NAMES: [&str; 3] = ["t_x", "t_x_blinding", "e_blinding"];

#[derive(Clone, Debug, PartialEq)]
pub struct ProofFields<G: AffineRepr> {
    pub pts: [G; 11],
    pub scs: [G::ScalarField; 3],
    pub l: Vec<G>,
    pub r: Vec<G>,
    pub a: G::ScalarField,
    pub b: G::ScalarField,
}

pub fn point_size<G: AffineRepr>() -> usize {
    G::generator().compressed_size()
}
pub fn scalar_size<G: AffineRepr>() -> usize {
    G::ScalarField::from(1u64).compressed_size()
}

/// The size law: 11 points + 5 scalars + two 8-byte counts + 2k points.
pub fn size_law<G: AffineRepr>(k: usize) -> usize {
    (11 + 2 * k) * point_size::<G>() + 5 * scalar_size::<G>() + 16
}

pub fn enc_point<G: AffineRepr>(p: &G) -> Vec<u8> {
    let mut v = Vec::new();
    p.serialize_compressed(&mut v).unwrap();
    v
}
pub fn enc_scalar<F: PrimeField>(s: &F) -> Vec<u8> {
    let mut v = Vec::new();
    s.serialize_compressed(&mut v).unwrap();
    v
}
pub fn dec_point<G: AffineRepr>(b: &[u8]) -> Result<G, String> {
    G::deserialize_compressed(b).map_err(|e| format!("point: {:?}", e))
}
pub fn dec_scalar<F: PrimeField>(b: &[u8]) -> Result<F, String> {
    F::deserialize_compressed(b).map_err(|e| format!("scalar: {:?}", e))
}

/// Byte ranges of every field of an encoding with the given list lengths.
#[derive(Clone, Debug)]
pub struct Layout {
    pub pts: Vec<(usize, usize)>,
    pub scs: Vec<(usize, usize)>,
    pub cnt_l: (usize, usize),
    pub l: Vec<(usize, usize)>,
    pub cnt_r: (usize, usize),
    pub r: Vec<(usize, usize)>,
    pub a: (usize, usize),
    pub b: (usize, usize),
    pub total: usize,
}

pub fn layout<G: AffineRepr>(nl: usize, nr: usize) -> Layout {
    let ps = point_size::<G>();
    let ss = scalar_size::<G>();
    let mut off = 0;
    let mut take = |n: usize| {
        let r = (off, off + n);
        off += n;
        r
    };
    let pts = (0..11).map(|_| take(ps)).collect();
    let scs = (0..3).map(|_| take(ss)).collect();
    let cnt_l = take(8);
    let l = (0..nl).map(|_| take(ps)).collect();
    let cnt_r = take(8);
    let r = (0..nr).map(|_| take(ps)).collect();
    let a = take(ss);
    let b = take(ss);
    Layout {
        pts,
        scs,
        cnt_l,
        l,
        cnt_r,
        r,
        a,
        b,
        total: off,
    }
}

impl<G: AffineRepr> ProofFields<G> {
    pub fn parse(bytes: &[u8]) -> Result<Self, String> {
        let ps = point_size::<G>();
        let ss = scalar_size::<G>();
        let mut off = 0usize;
        let mut take = |n: usize| -> Result<&[u8], String> {
            if off + n > bytes.len() {
                return Err(format!("short: need {} at {}", n, off));
            }
            let s = &bytes[off..off + n];
            off += n;
            Ok(s)
        };
        let mut pts = [G::zero(); 11];
        for p in pts.iter_mut() {
            *p = dec_point::<G>(take(ps)?)?;
        }
        let mut scs = [G::ScalarField::from(0u64); 3];
        for s in scs.iter_mut() {
            *s = dec_scalar(take(ss)?)?;
        }
        let mut lists: Vec<Vec<G>> = vec![];
        for _ in 0..2 {
            let mut c = [0u8; 8];
            c.copy_from_slice(take(8)?);
            let n = u64::from_le_bytes(c);
            if n > (bytes.len() as u64) {
                return Err("count exceeds input".into());
            }
            let mut v = Vec::new();
            for _ in 0..n {
                v.push(dec_point::<G>(take(ps)?)?);
            }
            lists.push(v);
        }
        let a = dec_scalar(take(ss)?)?;
        let b = dec_scalar(take(ss)?)?;
        let r = lists.pop().unwrap();
        let l = lists.pop().unwrap();
        Ok(ProofFields {
            pts,
            scs,
            l,
            r,
            a,
            b,
        })
    }

    pub fn encode(&self) -> Vec<u8> {
        self.encode_with_counts(self.l.len() as u64, self.r.len() as u64)
    }

    /// Serialise with arbitrary (possibly lying) list counts.
    pub fn encode_with_counts(&self, cl: u64, cr: u64) -> Vec<u8> {
        let mut v = Vec::new();
        for p in &self.pts {
            v.extend(enc_point(p));
        }
        for s in &self.scs {
            v.extend(enc_scalar(s));
        }
        v.extend(cl.to_le_bytes());
        for p in &self.l {
            v.extend(enc_point(p));
        }
        v.extend(cr.to_le_bytes());
        for p in &self.r {
            v.extend(enc_point(p));
        }
        v.extend(enc_scalar(&self.a));
        v.extend(enc_scalar(&self.b));
        v
    }
}
