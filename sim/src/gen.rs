//! Seeded generator of statements (call histories).  Satisfiable by
//! construction, *checked* by the model at run time: expectations are always
//! taken from `model.satisfied()`, never from how the program was built.

use crate::common::*;
use crate::model::*;
use ark_ff::PrimeField;
use rand_core::RngCore;

#[derive(Clone, Debug)]
pub struct Knobs {
    pub max_gates: usize,
    pub max_commits: usize,
    pub max_blocks: usize,
    pub max_ops: usize,
    pub expr_depth: usize,
    pub userdata: bool,
    pub raw_refs: bool,
    pub seeded_bases: bool,
}

impl Knobs {
    pub fn quick() -> Self {
        Knobs {
            max_gates: 12,
            max_commits: 4,
            max_blocks: 4,
            max_ops: 14,
            expr_depth: 3,
            userdata: true,
            raw_refs: true,
            seeded_bases: true,
        }
    }
    pub fn thorough() -> Self {
        Knobs {
            max_gates: 40,
            max_commits: 8,
            max_blocks: 5,
            max_ops: 40,
            expr_depth: 4,
            userdata: true,
            raw_refs: true,
            seeded_bases: true,
        }
    }
}

pub struct ExprCtx {
    pub table_len: usize,
    pub gates: usize,
    pub m: usize,
    pub nchals: usize,
    pub raw_refs: bool,
    /// a half-open gate whose right/out wires will still change
    pub pending: Option<usize>,
}

pub fn gen_coef(rng: &mut Rng, cx: &ExprCtx) -> Coef {
    if cx.nchals > 0 && chance(rng, 1, 2) {
        let k = 1 + below(rng, 2);
        let idx = (0..k).map(|_| below(rng, cx.nchals)).collect();
        let s = if chance(rng, 1, 2) {
            S::U(1)
        } else {
            gen_scalar(rng)
        };
        Coef::Chal(s, idx)
    } else {
        Coef::Lit(gen_scalar(rng))
    }
}

fn gen_termvar(rng: &mut Rng, cx: &ExprCtx) -> TermVar {
    if cx.table_len > 0 && !(cx.raw_refs && chance(rng, 1, 5)) {
        TermVar::V(below(rng, cx.table_len))
    } else {
        TermVar::Raw(gen_raw(rng, cx))
    }
}

fn gen_raw(rng: &mut Rng, cx: &ExprCtx) -> VK {
    let mut opts: Vec<VK> = vec![VK::One];
    if cx.gates > 0 {
        let i = below(rng, cx.gates);
        opts.push(VK::L(i));
        if cx.pending != Some(i) {
            opts.push(VK::R(i));
            opts.push(VK::O(i));
            opts.push(VK::O(i));
        }
    }
    if cx.m > 0 {
        opts.push(VK::C(below(rng, cx.m)));
    }
    *pick(rng, &opts)
}

pub fn gen_leaf(rng: &mut Rng, cx: &ExprCtx) -> Expr {
    let r = below(rng, 20);
    if r < 12 && cx.table_len > 0 {
        Expr::V(below(rng, cx.table_len))
    } else if r < 14 && cx.raw_refs {
        Expr::Raw(gen_raw(rng, cx))
    } else if r < 15 {
        Expr::Empty
    } else if r < 16 && cx.nchals > 0 {
        Expr::KC(gen_coef(rng, cx))
    } else {
        Expr::K(gen_scalar(rng))
    }
}

pub fn gen_expr(rng: &mut Rng, cx: &ExprCtx, depth: usize) -> Expr {
    if depth == 0 || chance(rng, 1, 4) {
        return gen_leaf(rng, cx);
    }
    match below(rng, 10) {
        0 | 1 | 2 => Expr::add(gen_expr(rng, cx, depth - 1), gen_expr(rng, cx, depth - 1)),
        3 | 4 | 5 => Expr::sub(gen_expr(rng, cx, depth - 1), gen_expr(rng, cx, depth - 1)),
        6 => Expr::neg(gen_expr(rng, cx, depth - 1)),
        7 | 8 => Expr::scale(gen_expr(rng, cx, depth - 1), gen_coef(rng, cx)),
        _ => {
            let n = below(rng, 5);
            let mut ts: Vec<(TermVar, Coef)> =
                (0..n).map(|_| (gen_termvar(rng, cx), gen_coef(rng, cx))).collect();
            // repeated variable on purpose
            if n >= 2 && chance(rng, 1, 2) {
                ts[1].0 = ts[0].0.clone();
            }
            Expr::Terms(ts, chance(rng, 1, 2))
        }
    }
}

fn gen_userdata(rng: &mut Rng) -> Op {
    let n = below(rng, 9);
    let mut d = vec![0u8; n];
    rng.fill_bytes(&mut d);
    Op::UserData {
        label: below(rng, 3),
        data: d,
    }
}

/// Gate-count targets biased toward powers of two and their neighbours.
fn gate_target(rng: &mut Rng, max: usize) -> usize {
    let c = [0usize, 0, 1, 1, 2, 2, 3, 3, 4, 4, 5, 6, 7, 8, 8, 9, 12, 15, 16, 17, 24, 31, 32, 33, 40];
    loop {
        let t = *pick(rng, &c);
        if t <= max {
            return t;
        }
    }
}

struct Gen<F: PrimeField> {
    model: RefCS<F>,
    ops: Vec<Op>,
}

impl<F: PrimeField> Gen<F> {
    fn cx(&self, kn: &Knobs) -> ExprCtx {
        ExprCtx {
            table_len: self.model.table.len(),
            gates: self.model.gates,
            m: self.model.m,
            nchals: self.model.chals.len(),
            raw_refs: kn.raw_refs,
            pending: self.model.pending,
        }
    }
    fn push_alloc_lit(&mut self, s: S) {
        self.model.allocate(Some(s.f())).unwrap();
        self.ops.push(Op::Alloc(Some(Val::Lit(s))));
    }
    fn push_constrain(&mut self, e: Expr) {
        self.model.constrain(&e);
        self.ops.push(Op::Constrain(e));
    }
}

/// Symbolic application (no witness) used to track table/gate counts while
/// generating randomized blocks.
pub fn sym_apply<F: PrimeField>(sym: &mut RefCS<F>, op: &Op) {
    match op {
        Op::Commit { .. } => {
            sym.commit(None);
        }
        Op::Alloc(_) => {
            let _ = sym.allocate(None);
        }
        Op::AllocMul(_) => {
            let _ = sym.allocate_multiplier(None);
        }
        Op::Mul(l, r) => {
            sym.multiply(l, r);
        }
        Op::Constrain(e) => sym.constrain(e),
        Op::Challenge { .. } => sym.chals.push(F::one()),
        _ => {}
    }
}

fn gen_block<F: PrimeField>(
    rng: &mut Rng,
    sym: &mut RefCS<F>,
    kn: &Knobs,
    gate_budget: &mut usize,
) -> Vec<Op> {
    let mut ops: Vec<Op> = vec![];
    let n = below(rng, 7);
    let push = |ops: &mut Vec<Op>, sym: &mut RefCS<F>, op: Op| {
        sym_apply(sym, &op);
        ops.push(op);
    };
    if n > 0 && chance(rng, 5, 6) {
        push(&mut ops, sym, Op::Challenge { label: 5 });
    }
    for _ in 0..n {
        let cx = ExprCtx {
            table_len: sym.table.len(),
            gates: sym.gates,
            m: sym.m,
            nchals: sym.chals.len(),
            raw_refs: kn.raw_refs,
            pending: sym.pending,
        };
        let can_gate = *gate_budget > 0;
        match below(rng, 12) {
            0 => push(&mut ops, sym, Op::Challenge { label: 4 + below(rng, 2) }),
            1 | 2 | 3 if can_gate => {
                let l = gen_expr(rng, &cx, kn.expr_depth);
                let r = if chance(rng, 1, 8) { l.clone() } else { gen_expr(rng, &cx, kn.expr_depth) };
                push(&mut ops, sym, Op::Mul(l, r));
                *gate_budget -= 1;
            }
            4 | 5 if can_gate || sym.pending.is_some() => {
                // gadget pattern: fresh wire pinned to an expression
                let e = gen_expr(rng, &cx, kn.expr_depth);
                if sym.pending.is_none() {
                    *gate_budget -= 1;
                }
                push(&mut ops, sym, Op::Alloc(Some(Val::Eval(e.clone()))));
                let t = sym.table.len() - 1;
                push(&mut ops, sym, Op::Constrain(Expr::sub(Expr::V(t), e)));
            }
            6 if can_gate || sym.pending.is_some() => {
                // unconstrained single allocation (may stay pending)
                if sym.pending.is_none() {
                    *gate_budget -= 1;
                }
                push(&mut ops, sym, Op::Alloc(Some(Val::Lit(gen_scalar(rng)))));
            }
            7 if can_gate => {
                let e1 = gen_expr(rng, &cx, kn.expr_depth);
                let e2 = gen_expr(rng, &cx, kn.expr_depth);
                push(
                    &mut ops,
                    sym,
                    Op::AllocMul(Some((Val::Eval(e1.clone()), Val::Eval(e2.clone())))),
                );
                *gate_budget -= 1;
                let t = sym.table.len() - 3;
                push(&mut ops, sym, Op::Constrain(Expr::sub(Expr::V(t), e1)));
                if chance(rng, 1, 2) {
                    push(&mut ops, sym, Op::Constrain(Expr::sub(e2, Expr::V(t + 1))));
                }
            }
            8 => {
                // identity: c*(a+b) - c*a - c*b = 0
                let a = gen_expr(rng, &cx, 2);
                let b = gen_expr(rng, &cx, 2);
                let c = gen_coef(rng, &cx);
                let e = Expr::sub(
                    Expr::sub(
                        Expr::scale(Expr::add(a.clone(), b.clone()), c.clone()),
                        Expr::scale(a, c.clone()),
                    ),
                    Expr::scale(b, c),
                );
                push(&mut ops, sym, Op::Constrain(e));
            }
            9 if kn.userdata => {
                let op = gen_userdata(rng);
                push(&mut ops, sym, op);
            }
            _ => {}
        }
    }
    ops
}

pub fn gen_statement<F: PrimeField>(rng: &mut Rng, curve: Curve, kn: &Knobs) -> Statement {
    let tlabel = below(rng, TLABELS.len());
    let mut pre = vec![];
    if kn.userdata && chance(rng, 1, 3) {
        for _ in 0..(1 + below(rng, 2)) {
            if let Op::UserData { label, data } = gen_userdata(rng) {
                pre.push((label, data));
            }
        }
    }
    let bases = if kn.seeded_bases && chance(rng, 1, 4) {
        match below(rng, 3) {
            0 => Bases::Seeded(rng.next_u64()),
            1 => Bases::SeededBlinding(rng.next_u64()),
            _ => Bases::SeededValue(rng.next_u64()),
        }
    } else {
        Bases::Default
    };

    let target = gate_target(rng, kn.max_gates);
    let blocks = if kn.max_blocks > 0 && chance(rng, 1, 2) {
        1 + below(rng, kn.max_blocks)
    } else {
        0
    };
    // split of the gate budget between the phases
    let g2 = if blocks > 0 {
        match below(rng, 4) {
            0 => target,         // gates only in phase 2
            1 => 0,              // phase 2 present but gate-free
            _ => below(rng, target + 1),
        }
    } else {
        0
    };
    let g1 = target - g2;

    let mut g = Gen::<F> {
        model: RefCS::new(true),
        ops: vec![],
    };
    let mut block_slots = 0usize;
    let n_ops = if g1 == 0 {
        below(rng, 6)
    } else {
        g1 + below(rng, kn.max_ops)
    };
    let mut steps = 0;
    while steps < n_ops * 3 + 3 {
        steps += 1;
        let done_gates = g.model.gates >= g1;
        if steps > n_ops && done_gates {
            break;
        }
        let cx = g.cx(kn);
        let can_gate = g.model.gates < g1;
        match below(rng, 16) {
            0 | 1 if g.model.m < kn.max_commits => {
                let (v, r) = (gen_scalar(rng), gen_scalar(rng));
                g.model.commit(Some((v.f(), r.f())));
                g.ops.push(Op::Commit { v, r });
            }
            2 | 3 if can_gate || g.model.pending.is_some() => {
                // a run of single allocations (odd and even lengths)
                let run = 1 + below(rng, 3);
                for _ in 0..run {
                    if g.model.pending.is_none() && g.model.gates >= g1 {
                        break;
                    }
                    g.push_alloc_lit(gen_scalar(rng));
                }
            }
            4 | 5 if can_gate => {
                let (l, r) = (gen_scalar(rng), gen_scalar(rng));
                g.model
                    .allocate_multiplier(Some((l.f(), r.f())))
                    .unwrap();
                g.ops
                    .push(Op::AllocMul(Some((Val::Lit(l), Val::Lit(r)))));
            }
            6 | 7 | 8 if can_gate => {
                let l = gen_expr(rng, &cx, kn.expr_depth);
                // squaring: structurally identical inputs now and then
                let r = if chance(rng, 1, 8) { l.clone() } else { gen_expr(rng, &cx, kn.expr_depth) };
                g.model.multiply(&l, &r);
                g.ops.push(Op::Mul(l, r));
            }
            9 | 10 => {
                // constraint with the public constant set to the model value
                let e = gen_expr(rng, &cx, kn.expr_depth);
                let val: F = g.model.eval(&e);
                if val.is_zero() && chance(rng, 1, 2) {
                    // no constant term at all
                    g.push_constrain(e);
                } else if chance(rng, 1, 8) && g.model.m > 0 {
                    // single committed variable, scaled: c*(V - v) as c*V - c*v
                    let ci = below(rng, g.model.m);
                    let t = g.model.table.iter().position(|k| *k == VK::C(ci)).unwrap();
                    let v: F = g.model.v[ci];
                    if v.is_zero() {
                        g.push_constrain(Expr::scale(Expr::V(t), Coef::Lit(gen_scalar(rng))));
                    } else {
                        g.push_constrain(Expr::sub(Expr::V(t), Expr::K(S::of(&v))));
                    }
                } else {
                    g.push_constrain(Expr::sub(e, Expr::K(S::of(&val))));
                }
            }
            11 if can_gate || g.model.pending.is_some() => {
                // gadget pattern: new wire = value of an expression
                let e = gen_expr(rng, &cx, kn.expr_depth);
                let val: F = g.model.eval(&e);
                g.push_alloc_lit(S::of(&val));
                let t = g.model.table.len() - 1;
                g.push_constrain(Expr::sub(Expr::V(t), e));
            }
            12 => {
                // constants only
                let (a, b) = (gen_scalar(rng), gen_scalar(rng));
                let sum: F = a.f::<F>() + b.f::<F>();
                g.push_constrain(Expr::sub(
                    Expr::add(Expr::K(a), Expr::K(b)),
                    Expr::K(S::of(&sum)),
                ));
            }
            13 if kn.userdata => {
                let op = gen_userdata(rng);
                g.ops.push(op);
            }
            14 | 15 if block_slots < blocks => {
                block_slots += 1;
                g.ops.push(Op::Randomized(vec![]));
            }
            _ => {}
        }
    }
    while block_slots < blocks {
        block_slots += 1;
        // registration point anywhere in the phase-1 history
        let pos = below(rng, g.ops.len() + 1);
        g.ops.insert(pos, Op::Randomized(vec![]));
    }

    // fill the randomized blocks symbolically
    if blocks > 0 {
        let mut sym = RefCS::<F>::new(false);
        for op in &g.ops {
            sym_apply(&mut sym, op);
        }
        sym.begin_phase2();
        let mut budget = g2;
        let idxs: Vec<usize> = g
            .ops
            .iter()
            .enumerate()
            .filter(|(_, o)| matches!(o, Op::Randomized(_)))
            .map(|(i, _)| i)
            .collect();
        for (bi, i) in idxs.iter().enumerate() {
            let mut body = gen_block(rng, &mut sym, kn, &mut budget);
            // last block: spend what is left of the gate budget
            if bi + 1 == idxs.len() {
                while budget > 0 {
                    let cx = ExprCtx {
                        table_len: sym.table.len(),
                        gates: sym.gates,
                        m: sym.m,
                        nchals: sym.chals.len(),
                        raw_refs: kn.raw_refs,
                        pending: sym.pending,
                    };
                    let op = Op::Mul(gen_expr(rng, &cx, 2), gen_expr(rng, &cx, 2));
                    sym_apply(&mut sym, &op);
                    body.push(op);
                    budget -= 1;
                }
            }
            g.ops[*i] = Op::Randomized(body);
        }
    }

    // occasionally a LONG statement: hundreds of constraint rows (crossing
    // 256 / 512 rows) over the same few variables; rows cost nothing to prove
    if chance(rng, 1, 40) && g.model.table.len() > 0 {
        let extra = 200 + below(rng, 500);
        let cx = ExprCtx { table_len: phase1_table_len_ops(&g.ops), gates: 0, m: 0, nchals: 0, raw_refs: false, pending: None };
        // the model used for constants must be the phase-1 model: only when there is no block
        if !g.ops.iter().any(|o| matches!(o, Op::Randomized(_))) {
            for _ in 0..extra {
                let e = gen_expr(rng, &cx, 1);
                let val: F = g.model.eval(&e);
                g.push_constrain(Expr::sub(e, Expr::K(S::of(&val))));
            }
        }
    }
    // occasionally a FORWARD reference: an earlier top-level constraint additionally names,
    // through a hand-built handle, a commitment that only arrives later; the added term
    // c * (C_j - v_j) is zero under the assignment, so satisfaction is unchanged
    if kn.raw_refs && chance(rng, 1, 6) {
        let mut ord = 0usize;
        let mut later: Vec<(usize, usize, S)> = vec![]; // (op index, commitment ordinal, value)
        for (i, op) in g.ops.iter().enumerate() {
            if let Op::Commit { v, .. } = op {
                later.push((i, ord, v.clone()));
                ord += 1;
            }
        }
        let cons: Vec<usize> = g.ops.iter().enumerate().filter(|(i, o)| matches!(o, Op::Constrain(_)) && later.iter().any(|(ci, _, _)| ci > i)).map(|(i, _)| i).collect();
        if !cons.is_empty() {
            let at = *pick(rng, &cons);
            let cands: Vec<&(usize, usize, S)> = later.iter().filter(|(ci, _, _)| *ci > at).collect();
            let (_, j, v) = (*pick(rng, &cands)).clone();
            let c = Coef::Lit(gen_scalar_nonzero::<F>(rng));
            if let Op::Constrain(e) = &g.ops[at] {
                let fwd = Expr::scale(Expr::sub(Expr::Raw(VK::C(j)), Expr::K(v)), c);
                g.ops[at] = Op::Constrain(Expr::add(e.clone(), fwd));
            }
        }
    }
    Statement {
        curve,
        tlabel,
        pre,
        bases,
        ops: g.ops,
    }
}

/// A large satisfiable circuit: `gates` multiplication gates split over the
/// two phases, chained so that every gate matters.
pub fn gen_large_statement<F: PrimeField>(rng: &mut Rng, curve: Curve, gates: usize) -> Statement {
    let two_phase = chance(rng, 1, 2);
    let g1 = if two_phase { below(rng, gates + 1) } else { gates };
    let mut ops = vec![Op::Commit { v: S::U(3), r: S::U(17) }];
    // table: 0 = commitment; gate i -> entries 1+3i .. 3+3i
    for i in 0..g1 {
        let prev_out = if i == 0 { Expr::V(0) } else { Expr::V(3 * i) };
        ops.push(Op::Mul(prev_out, Expr::add(Expr::V(0), Expr::K(S::U(i as u64 % 5)))));
    }
    if two_phase {
        let mut b = vec![Op::Challenge { label: 5 }];
        for i in g1..gates {
            let prev_out = if i == 0 { Expr::V(0) } else { Expr::V(3 * i) };
            b.push(Op::Mul(prev_out, Expr::scale(Expr::V(0), Coef::Chal(S::U(1), vec![0]))));
        }
        ops.push(Op::Randomized(b));
    }
    Statement { curve, tlabel: 0, pre: vec![], bases: Bases::Default, ops }
}

fn phase1_table_len_ops(ops: &[Op]) -> usize {
    ops.iter().map(op_outputs).sum()
}

/// Scripted corner cases, so every probe of section 2.2 fires in the quick tier.
pub fn scripted(curve: Curve) -> Vec<(&'static str, Statement)> {
    let base = |ops: Vec<Op>| Statement {
        curve,
        tlabel: 0,
        pre: vec![],
        bases: Bases::Default,
        ops,
    };
    let lit = |u: u64| Val::Lit(S::U(u));
    let mut out = vec![];
    out.push(("zero-gates-no-commit", base(vec![])));
    out.push((
        "zero-gates-committed-only",
        base(vec![
            Op::Commit {
                v: S::U(7),
                r: S::U(11),
            },
            Op::Constrain(Expr::sub(Expr::V(0), Expr::K(S::U(7)))),
        ]),
    ));
    // hand-built handles that refer FORWARD: a constraint written before the commitment /
    // the gate it names exists on that role (Variable is a public enum; weights are only
    // flattened at prove / verify time, so this is legal and must mean what it spells)
    out.push((
        "forward-reference-to-later-commitment-and-gate",
        base(vec![
            Op::Commit { v: S::U(5), r: S::U(9) },
            Op::Constrain(Expr::sub(Expr::Raw(VK::C(0)), Expr::K(S::U(5)))),
            Op::Constrain(Expr::sub(Expr::scale(Expr::Raw(VK::C(1)), Coef::Lit(S::U(3))), Expr::K(S::U(21)))),
            Op::Constrain(Expr::sub(Expr::Raw(VK::O(0)), Expr::K(S::U(35)))),
            Op::Commit { v: S::U(7), r: S::U(11) },
            Op::AllocMul(Some((lit(5), lit(7)))),
            Op::Constrain(Expr::sub(Expr::V(2), Expr::V(0))),
            Op::Constrain(Expr::sub(Expr::V(3), Expr::V(1))),
        ]),
    ));
    out.push((
        "forward-reference-from-phase1-into-phase2",
        base(vec![
            Op::Constrain(Expr::sub(Expr::add(Expr::Raw(VK::C(0)), Expr::Raw(VK::C(1))), Expr::K(S::U(12)))),
            Op::Commit { v: S::U(4), r: S::U(3) },
            Op::AllocMul(Some((lit(2), lit(3)))),
            Op::Constrain(Expr::sub(Expr::Raw(VK::L(1)), Expr::K(S::U(8)))),
            Op::Commit { v: S::U(8), r: S::N(2) },
            Op::Randomized(vec![
                Op::Challenge { label: 5 },
                Op::AllocMul(Some((lit(8), lit(1)))),
                Op::Constrain(Expr::scale(Expr::sub(Expr::Raw(VK::O(1)), Expr::Raw(VK::C(1))), Coef::Chal(S::U(1), vec![0]))),
            ]),
        ]),
    ));
    out.push((
        "one-gate",
        base(vec![
            Op::Commit {
                v: S::U(3),
                r: S::N(1),
            },
            Op::Mul(Expr::V(0), Expr::V(0)),
            Op::Constrain(Expr::sub(Expr::V(3), Expr::K(S::U(9)))),
        ]),
    ));
    // shuffle gadget k=2 (gates only in phase 2)
    out.push((
        "shuffle-2-phase2-only",
        base(vec![
            Op::Commit {
                v: S::U(5),
                r: S::U(1),
            },
            Op::Commit {
                v: S::U(8),
                r: S::U(2),
            },
            Op::Commit {
                v: S::U(8),
                r: S::U(3),
            },
            Op::Commit {
                v: S::U(5),
                r: S::U(4),
            },
            Op::Randomized(vec![
                Op::Challenge { label: 5 },
                Op::Mul(
                    Expr::sub(Expr::V(1), Expr::KC(Coef::Chal(S::U(1), vec![0]))),
                    Expr::sub(Expr::V(0), Expr::KC(Coef::Chal(S::U(1), vec![0]))),
                ),
                Op::Mul(
                    Expr::sub(Expr::V(3), Expr::KC(Coef::Chal(S::U(1), vec![0]))),
                    Expr::sub(Expr::V(2), Expr::KC(Coef::Chal(S::U(1), vec![0]))),
                ),
                Op::Constrain(Expr::sub(Expr::V(6), Expr::V(9))),
            ]),
        ]),
    ));
    // pending allocation crosses the phase boundary, then a single
    // allocation opens phase 2 (must NOT pair with it)
    out.push((
        "pending-across-boundary",
        base(vec![
            Op::Alloc(Some(lit(6))),
            Op::Randomized(vec![
                Op::Challenge { label: 5 },
                Op::Alloc(Some(lit(4))),
                Op::Alloc(Some(lit(5))),
                // O1 = 20, O0 = 0 (closed with zeros)
                Op::Constrain(Expr::sub(Expr::Raw(VK::O(1)), Expr::K(S::U(20)))),
                Op::Constrain(Expr::Raw(VK::O(0))),
                Op::Constrain(Expr::Raw(VK::R(0))),
            ]),
        ]),
    ));
    // second phase whose only gates have zero outputs (a half-open allocate;
    // a product with a zero factor): A_O2 must still be blinded
    out.push((
        "phase2-gates-with-zero-outputs",
        base(vec![
            Op::AllocMul(Some((lit(2), lit(3)))),
            Op::Randomized(vec![
                Op::Challenge { label: 5 },
                Op::Mul(Expr::K(S::U(0)), Expr::V(0)),
                Op::Alloc(Some(lit(7))),
            ]),
        ]),
    ));
    out.push((
        "phase2-single-open-allocate",
        base(vec![Op::Randomized(vec![Op::Alloc(Some(lit(9)))])]),
    ));
    out.push((
        "phase2-present-gate-free",
        base(vec![
            Op::Commit {
                v: S::U(2),
                r: S::U(9),
            },
            Op::AllocMul(Some((lit(2), lit(3)))),
            Op::Randomized(vec![
                Op::Challenge { label: 5 },
                Op::Constrain(Expr::scale(
                    Expr::sub(Expr::V(3), Expr::K(S::U(6))),
                    Coef::Chal(S::U(1), vec![0]),
                )),
            ]),
        ]),
    ));
    out.push((
        "pending-at-proof-time",
        base(vec![
            Op::AllocMul(Some((lit(2), lit(3)))),
            Op::Alloc(Some(lit(9))),
            Op::Constrain(Expr::sub(Expr::V(3), Expr::K(S::U(9)))),
        ]),
    ));
    out.push((
        "phase1-ops-after-randomized-registered",
        base(vec![
            Op::Randomized(vec![
                Op::Challenge { label: 5 },
                Op::Mul(Expr::V(0), Expr::V(3)),
            ]),
            Op::Commit {
                v: S::U(4),
                r: S::U(4),
            },
            Op::Mul(Expr::V(0), Expr::K(S::U(2))),
            Op::Randomized(vec![Op::Alloc(Some(Val::Eval(Expr::V(6))))]),
        ]),
    ));
    out
}
