//! F10: faults in prover memory / unsatisfiable statements (C02), expressed
//! as transformations of the statement so that they replay from the file.

use crate::common::*;
use crate::model::*;
use serde::{Deserialize, Serialize};

#[derive(Clone, Debug, PartialEq, Serialize, Deserialize)]
pub enum WFault {
    /// top-level op index / (op index, inner index) whose witness literal is shifted
    WireValue { at: (usize, Option<usize>), which: usize, d: S },
    /// committed value replaced (both sides see the new commitment)
    CommitValue { at: usize, d: S },
    /// gate triple overwritten through the hook at the end of its phase
    GateOut { gate: usize, d: S },
    GateLeft { gate: usize, d: S },
    GateRight { gate: usize, d: S },
    /// two gates with opposite output errors (+d, -d): cancels only if the two gates were
    /// (wrongly) given the same weight y^i
    GateOutPair { g1: usize, g2: usize, d: S },
    /// public constant of a constraint changed on both sides
    Constant { at: (usize, Option<usize>), d: S },
    /// two constraints (adjacent rows) violated by +d and -d: cancels only if
    /// the two rows were (wrongly) given the same weight
    ConstantPair { at1: (usize, Option<usize>), at2: (usize, Option<usize>), d: S },
}

impl WFault {
    pub fn kind(&self) -> &'static str {
        match self {
            WFault::WireValue { .. } => "F10-wire-value",
            WFault::CommitValue { .. } => "F10-commit-value",
            WFault::GateOut { .. } => "F10-gate-out",
            WFault::GateLeft { .. } => "F10-gate-left",
            WFault::GateRight { .. } => "F10-gate-right",
            WFault::GateOutPair { .. } => "F10-gate-out-pair-cancelling",
            WFault::Constant { .. } => "F10-constant",
            WFault::ConstantPair { .. } => "F10-constant-pair-cancelling",
        }
    }
}

fn shift_val(v: &Val, d: &S) -> Val {
    match v {
        Val::Lit(s) => {
            // literal + d, kept symbolic: Eval(K(s)) + d
            Val::EvalPlus(Expr::K(s.clone()), d.clone())
        }
        Val::Eval(e) => Val::EvalPlus(e.clone(), d.clone()),
        Val::EvalPlus(e, d0) => Val::EvalPlus(
            Expr::add(e.clone(), Expr::K(d0.clone())),
            d.clone(),
        ),
        Val::EvalMul(a, b) => Val::EvalPlus(
            // not exact product any more; fine for a fault
            Expr::add(a.clone(), b.clone()),
            d.clone(),
        ),
    }
}

fn op_at<'a>(st: &'a mut Statement, at: (usize, Option<usize>)) -> Option<&'a mut Op> {
    let o = st.ops.get_mut(at.0)?;
    match at.1 {
        None => Some(o),
        Some(j) => match o {
            Op::Randomized(b) => b.get_mut(j),
            _ => None,
        },
    }
}

/// Apply the fault; None if it does not fit the statement.
pub fn apply(st: &Statement, f: &WFault, n1: usize) -> Option<Statement> {
    let mut s = st.clone();
    match f {
        WFault::WireValue { at, which, d } => match op_at(&mut s, *at)? {
            Op::Alloc(Some(v)) => *v = shift_val(v, d),
            Op::AllocMul(Some((l, r))) => {
                if *which == 0 {
                    *l = shift_val(l, d)
                } else {
                    *r = shift_val(r, d)
                }
            }
            _ => return None,
        },
        WFault::CommitValue { at, d } => match s.ops.get_mut(*at)? {
            Op::Commit { v, .. } => {
                // symbolic add is not available for S; use byte form via secq
                // field only when small, otherwise replace by d itself
                *v = match (&*v, d) {
                    (S::U(a), S::U(b)) => S::U(a.wrapping_add(*b)),
                    _ => d.clone(),
                };
            }
            _ => return None,
        },
        WFault::GateOut { gate, d } | WFault::GateLeft { gate, d } | WFault::GateRight { gate, d } => {
            let cur = |k: VK| Val::Eval(Expr::Raw(k));
            let bump = |k: VK| Val::EvalPlus(Expr::Raw(k), d.clone());
            let op = match f {
                WFault::GateOut { .. } => Op::OverwriteGate {
                    gate: *gate,
                    l: cur(VK::L(*gate)),
                    r: cur(VK::R(*gate)),
                    o: bump(VK::O(*gate)),
                },
                WFault::GateLeft { .. } => Op::OverwriteGate {
                    gate: *gate,
                    l: bump(VK::L(*gate)),
                    r: cur(VK::R(*gate)),
                    o: cur(VK::O(*gate)),
                },
                _ => Op::OverwriteGate {
                    gate: *gate,
                    l: cur(VK::L(*gate)),
                    r: bump(VK::R(*gate)),
                    o: cur(VK::O(*gate)),
                },
            };
            if *gate < n1 {
                s.ops.push(op);
            } else {
                // append to the last randomized block
                let last = s
                    .ops
                    .iter_mut()
                    .rev()
                    .find(|o| matches!(o, Op::Randomized(_)))?;
                if let Op::Randomized(b) = last {
                    b.push(op);
                }
            }
        }
        WFault::GateOutPair { g1, g2, d } => {
            // -d spelled as (0 - d) through the expression language
            let neg = |k: VK| Val::Eval(Expr::sub(Expr::Raw(k), Expr::K(d.clone())));
            for (gate, plus) in [(*g1, true), (*g2, false)] {
                let op = Op::OverwriteGate {
                    gate,
                    l: Val::Eval(Expr::Raw(VK::L(gate))),
                    r: Val::Eval(Expr::Raw(VK::R(gate))),
                    o: if plus { Val::EvalPlus(Expr::Raw(VK::O(gate)), d.clone()) } else { neg(VK::O(gate)) },
                };
                if gate < n1 {
                    s.ops.push(op);
                } else {
                    let last = s.ops.iter_mut().rev().find(|o| matches!(o, Op::Randomized(_)))?;
                    if let Op::Randomized(b) = last {
                        b.push(op);
                    }
                }
            }
        }
        WFault::Constant { at, d } => match op_at(&mut s, *at)? {
            Op::Constrain(e) => *e = Expr::sub(e.clone(), Expr::K(d.clone())),
            _ => return None,
        },
        WFault::ConstantPair { at1, at2, d } => {
            match op_at(&mut s, *at1)? {
                Op::Constrain(e) => *e = Expr::sub(e.clone(), Expr::K(d.clone())),
                _ => return None,
            }
            match op_at(&mut s, *at2)? {
                Op::Constrain(e) => *e = Expr::add(e.clone(), Expr::K(d.clone())),
                _ => return None,
            }
        }
    }
    Some(s)
}

fn err_scalar(rng: &mut Rng) -> S {
    match below(rng, 4) {
        0 => S::U(1),
        1 => S::N(1),
        2 => {
            let mut b = [0u8; 32];
            b[8] = 1;
            S::B(hex(&b))
        }
        _ => {
            use rand_core::RngCore;
            let mut b = [0u8; 32];
            rng.fill_bytes(&mut b);
            b[0] |= 1;
            S::B(hex(&b))
        }
    }
}

/// Draw one fault that fits the statement.
pub fn gen_fault(rng: &mut Rng, st: &Statement, n1: usize, n2: usize) -> Option<WFault> {
    let mut wires: Vec<((usize, Option<usize>), usize)> = vec![];
    let mut cons: Vec<(usize, Option<usize>)> = vec![];
    let mut commits: Vec<usize> = vec![];
    for (i, op) in st.ops.iter().enumerate() {
        match op {
            Op::Alloc(Some(_)) => wires.push(((i, None), 0)),
            Op::AllocMul(Some(_)) => {
                wires.push(((i, None), 0));
                wires.push(((i, None), 1));
            }
            Op::Constrain(_) => cons.push((i, None)),
            Op::Commit { .. } => commits.push(i),
            Op::Randomized(b) => {
                for (j, o) in b.iter().enumerate() {
                    match o {
                        Op::Alloc(Some(_)) => wires.push(((i, Some(j)), 0)),
                        Op::AllocMul(Some(_)) => {
                            wires.push(((i, Some(j)), 0));
                            wires.push(((i, Some(j)), 1));
                        }
                        Op::Constrain(_) => cons.push((i, Some(j))),
                        _ => {}
                    }
                }
            }
            _ => {}
        }
    }
    let n = n1 + n2;
    let d = err_scalar(rng);
    // adjacent constraint rows (top level, phase 1), with their row numbers
    let mut rows = 0usize;
    let mut adj: Vec<(usize, usize, usize)> = vec![];
    let mut prev: Option<(usize, usize)> = None;
    for (i, op) in st.ops.iter().enumerate() {
        match op {
            Op::Constrain(_) => {
                if let Some((pi, prow)) = prev {
                    if prow + 1 == rows {
                        adj.push((pi, i, prow));
                    }
                }
                prev = Some((i, rows));
                rows += 1;
            }
            Op::Mul(..) => {
                rows += 2;
                prev = None;
            }
            _ => {}
        }
    }
    if rows > 100 && !adj.is_empty() && chance(rng, 2, 3) {
        let boundary: Vec<&(usize, usize, usize)> = adj.iter().filter(|(_, _, r)| (r + 1) % 64 == 0).collect();
        let (a, b, _) = if !boundary.is_empty() && chance(rng, 3, 4) { **pick(rng, &boundary) } else { *pick(rng, &adj) };
        return Some(WFault::ConstantPair { at1: (a, None), at2: (b, None), d: S::U(1 + (below(rng, 5) as u64)) });
    }
    if crate::HOOKS && n >= 2 && chance(rng, 1, 8) {
        // bias to the pair that straddles the phase boundary, then adjacent pairs
        let g1 = if n1 >= 1 && n2 >= 1 && chance(rng, 1, 2) { n1 - 1 } else { below(rng, n - 1) };
        let g2 = if chance(rng, 3, 4) { g1 + 1 } else { (g1 + 1 + below(rng, n - 1)) % n };
        if g1 != g2 {
            return Some(WFault::GateOutPair { g1, g2, d });
        }
    }
    for _ in 0..8 {
        match below(rng, 7) {
            0 | 1 if !wires.is_empty() => {
                let (at, which) = *pick(rng, &wires);
                return Some(WFault::WireValue { at, which, d });
            }
            2 if !commits.is_empty() => {
                return Some(WFault::CommitValue {
                    at: *pick(rng, &commits),
                    d,
                })
            }
            // gate triples are overwritten through the guarded hook: not drawn in the guard-off build
            3 | 4 if n > 0 && crate::HOOKS => {
                // bias to first / last / boundary gates
                let gate = match below(rng, 4) {
                    0 => 0,
                    1 => n - 1,
                    2 if n1 > 0 => n1 - 1,
                    _ => below(rng, n),
                };
                return Some(match below(rng, 3) {
                    0 => WFault::GateOut { gate, d },
                    1 => WFault::GateLeft { gate, d },
                    _ => WFault::GateRight { gate, d },
                });
            }
            5 | 6 if !cons.is_empty() => {
                return Some(WFault::Constant {
                    at: *pick(rng, &cons),
                    d,
                })
            }
            _ => {}
        }
    }
    None
}
