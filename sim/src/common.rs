//! Shared basics: seeded RNG tree, scalar specs, curve dispatch, hex.

use ark_ff::PrimeField;
use rand_chacha::ChaCha20Rng;
use rand_core::{RngCore, SeedableRng};
use serde::{Deserialize, Serialize};
use sha3::{Digest, Sha3_256};

pub type Rng = ChaCha20Rng;

/// One integer decides everything: every random choice of run `run` of
/// property `prop` is drawn from `sub_rng(seed, prop, run, stream)`.
pub fn sub_rng(seed: u64, prop: &str, run: u64, stream: &str) -> Rng {
    let mut h = Sha3_256::new();
    h.update(b"bpsim-rng-tree-v1");
    h.update(seed.to_le_bytes());
    h.update((prop.len() as u64).to_le_bytes());
    h.update(prop.as_bytes());
    h.update(run.to_le_bytes());
    h.update((stream.len() as u64).to_le_bytes());
    h.update(stream.as_bytes());
    let d = h.finalize();
    let mut s = [0u8; 32];
    s.copy_from_slice(&d);
    Rng::from_seed(s)
}

pub fn derive_seed(seed: u64, prop: &str, run: u64, stream: &str) -> u64 {
    sub_rng(seed, prop, run, stream).next_u64()
}

pub fn rng_from_u64(x: u64, stream: &str) -> Rng {
    sub_rng(x, "direct", 0, stream)
}

pub fn below(rng: &mut Rng, n: usize) -> usize {
    if n == 0 {
        return 0;
    }
    (rng.next_u64() % (n as u64)) as usize
}

pub fn chance(rng: &mut Rng, num: u32, den: u32) -> bool {
    (rng.next_u32() % den) < num
}

pub fn pick<'a, T>(rng: &mut Rng, xs: &'a [T]) -> &'a T {
    &xs[below(rng, xs.len())]
}

pub fn hex(b: &[u8]) -> String {
    let mut s = String::with_capacity(b.len() * 2);
    for x in b {
        s.push_str(&format!("{:02x}", x));
    }
    s
}

pub fn unhex(s: &str) -> Vec<u8> {
    let b = s.as_bytes();
    let mut out = Vec::with_capacity(b.len() / 2);
    let mut i = 0;
    while i + 1 < b.len() {
        let hi = (b[i] as char).to_digit(16).unwrap_or(0) as u8;
        let lo = (b[i + 1] as char).to_digit(16).unwrap_or(0) as u8;
        out.push(hi << 4 | lo);
        i += 2;
    }
    out
}

pub fn sha3_256(b: &[u8]) -> [u8; 32] {
    let mut h = Sha3_256::new();
    h.update(b);
    let d = h.finalize();
    let mut s = [0u8; 32];
    s.copy_from_slice(&d);
    s
}

/// Field-independent scalar specification (serialisable into replay files).
#[derive(Clone, Debug, PartialEq, Eq, Serialize, Deserialize)]
pub enum S {
    /// small non-negative integer
    U(u64),
    /// minus a small integer
    N(u64),
    /// 32 little-endian bytes reduced modulo the field order
    B(String),
}

impl S {
    pub fn f<F: PrimeField>(&self) -> F {
        match self {
            S::U(u) => F::from(*u),
            S::N(u) => -F::from(*u),
            S::B(h) => F::from_le_bytes_mod_order(&unhex(h)),
        }
    }
    pub fn of<F: PrimeField>(x: &F) -> S {
        let mut b = Vec::new();
        x.serialize_uncompressed(&mut b).unwrap();
        if b[8..].iter().all(|z| *z == 0) {
            let mut a = [0u8; 8];
            a.copy_from_slice(&b[..8]);
            return S::U(u64::from_le_bytes(a));
        }
        S::B(hex(&b))
    }
    pub fn is_simple(&self) -> bool {
        matches!(self, S::U(0) | S::U(1))
    }
}

/// Scalars drawn from {0, ±1, small, 2^64±1, p-1, uniform}.
pub fn gen_scalar(rng: &mut Rng) -> S {
    match below(rng, 12) {
        0 => S::U(0),
        1 => S::U(1),
        2 => S::N(1),
        3 => S::U(2 + (rng.next_u64() % 20)),
        4 => S::N(2 + (rng.next_u64() % 20)),
        5 => {
            // 2^64 + {-1,0,1}
            let mut b = [0u8; 32];
            match below(rng, 3) {
                0 => {
                    for x in b.iter_mut().take(8) {
                        *x = 0xff;
                    }
                }
                1 => b[8] = 1,
                _ => {
                    b[8] = 1;
                    b[0] = 1;
                }
            }
            S::B(hex(&b))
        }
        6 => S::U(rng.next_u64()),
        _ => {
            let mut b = [0u8; 32];
            rng.fill_bytes(&mut b);
            S::B(hex(&b))
        }
    }
}

pub fn gen_scalar_nonzero<F: PrimeField>(rng: &mut Rng) -> S {
    loop {
        let s = gen_scalar(rng);
        if !s.f::<F>().is_zero() {
            return s;
        }
    }
}

#[derive(Clone, Copy, Debug, PartialEq, Eq, PartialOrd, Ord, Serialize, Deserialize)]
pub enum Curve {
    Secq,
    Zorro,
    Ed,
}

pub const CURVES: [Curve; 3] = [Curve::Secq, Curve::Zorro, Curve::Ed];

impl Curve {
    pub fn name(&self) -> &'static str {
        match self {
            Curve::Secq => "secq256k1",
            Curve::Zorro => "zorro",
            Curve::Ed => "curve25519",
        }
    }
}

pub type GSecq = ark_secq256k1::Affine;
pub type GZorro = ark_bulletproofs::curve::zorro::G1Affine;
pub type GEd = ark_curve25519::EdwardsAffine;

#[macro_export]
macro_rules! with_curve {
    ($c:expr, $G:ident, $body:expr) => {
        match $c {
            $crate::common::Curve::Secq => {
                type $G = $crate::common::GSecq;
                $body
            }
            $crate::common::Curve::Zorro => {
                type $G = $crate::common::GZorro;
                $body
            }
            $crate::common::Curve::Ed => {
                type $G = $crate::common::GEd;
                $body
            }
        }
    };
}

/// Labels must be `&'static [u8]` for Merlin; programs refer to them by index.
pub const LABELS: [&[u8]; 8] = [
    b"user",
    b"ctx",
    b"app-data",
    b"V",
    b"y",
    b"shuffle challenge",
    b"dom-sep",
    b"m",
];

pub const TLABELS: [&[u8]; 4] = [b"bpsim", b"R1CSExampleGadget", b"x", b"bpsim-other"];

/// A deterministic RNG that counts what is taken from it (the external
/// randomness seam of `Prover::prove` and `batch_verify`).
pub struct CountingRng {
    pub inner: Rng,
    pub bytes: usize,
    pub calls: usize,
    pub mode: RngMode,
}

#[derive(Clone, Copy, Debug, PartialEq, Eq, Serialize, Deserialize)]
pub enum RngMode {
    Normal,
    /// returns zeros forever (a broken entropy source)
    StuckZero,
    /// returns 0xAA.. forever
    StuckPattern,
}

impl CountingRng {
    pub fn new(seed: u64, mode: RngMode) -> Self {
        CountingRng {
            inner: rng_from_u64(seed, "external"),
            bytes: 0,
            calls: 0,
            mode,
        }
    }
}

impl RngCore for CountingRng {
    fn next_u32(&mut self) -> u32 {
        let mut b = [0u8; 4];
        self.fill_bytes(&mut b);
        u32::from_le_bytes(b)
    }
    fn next_u64(&mut self) -> u64 {
        let mut b = [0u8; 8];
        self.fill_bytes(&mut b);
        u64::from_le_bytes(b)
    }
    fn fill_bytes(&mut self, dest: &mut [u8]) {
        self.calls += 1;
        self.bytes += dest.len();
        match self.mode {
            RngMode::Normal => self.inner.fill_bytes(dest),
            RngMode::StuckZero => {
                for d in dest.iter_mut() {
                    *d = 0
                }
            }
            RngMode::StuckPattern => {
                for d in dest.iter_mut() {
                    *d = 0xAA
                }
            }
        }
    }
    fn try_fill_bytes(&mut self, dest: &mut [u8]) -> Result<(), rand_core::Error> {
        self.fill_bytes(dest);
        Ok(())
    }
}
impl rand_core::CryptoRng for CountingRng {}

/// Run `f`, converting a panic into `Err(message)`.
pub fn catch<T>(f: impl FnOnce() -> T) -> Result<T, String> {
    match std::panic::catch_unwind(std::panic::AssertUnwindSafe(f)) {
        Ok(v) => Ok(v),
        Err(e) => {
            let msg = if let Some(s) = e.downcast_ref::<&str>() {
                s.to_string()
            } else if let Some(s) = e.downcast_ref::<String>() {
                s.clone()
            } else {
                "panic (non-string payload)".to_string()
            };
            Err(msg)
        }
    }
}
