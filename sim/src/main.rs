fn main() {
    use ark_bulletproofs::{r1cs::*, BulletproofGens, PedersenGens};
    use merlin::Transcript;
    type G = ark_curve25519::EdwardsAffine;
    let pc = PedersenGens::<G>::default();
    let bp = BulletproofGens::<G>::new(4, 1);
    let mut t = Transcript::new(b"x");
    merlin::sim::start_recording();
    let mut p = Prover::new(&pc, &mut t);
    let (_c, v) = p.commit(3u64.into(), 5u64.into());
    let (_, _, o) = p.multiply(v.into(), v.into());
    p.constrain(o - ark_curve25519::Fr::from(9u64));
    let mut rng = rand_chacha::ChaChaRng::from_seed([1u8; 32]);
    use rand_chacha::rand_core::SeedableRng;
    let proof = p.prove(&mut rng, &bp).unwrap();
    let log = merlin::sim::stop_recording();
    println!("{} ops, proof {} bytes", log.len(), proof.to_bytes().unwrap().len());
}
