mod checks;
mod codec;
mod common;
mod gen;
mod interp;
mod model;
mod refgens;
mod refsession;
mod runner;
mod selftest;
mod session;
mod tamper;
mod faults;

use runner::*;
use std::time::Instant;

fn usage() -> ! {
    eprintln!("usage: bpsim <C01..C18> [quick|thorough] | bpsim replay <file> | bpsim selftest <what>");
    std::process::exit(2)
}

fn main() {
    // panics inside the code under test are caught and attributed; keep stderr quiet
    std::panic::set_hook(Box::new(|info| {
        if std::env::var("BPSIM_PANIC_TRACE").is_ok() {
            eprintln!("{}", info);
        }
    }));
    let args: Vec<String> = std::env::args().collect();
    if args.len() < 2 {
        usage();
    }
    let verif_dir = std::env::var("VERIF_DIR").unwrap_or_else(|_| "/verif".to_string());
    let seed: u64 = std::env::var("VERIF_SEED")
        .ok()
        .and_then(|s| s.parse().ok())
        .unwrap_or(1);
    let workers: usize = std::env::var("VERIF_WORKERS")
        .ok()
        .and_then(|s| s.parse().ok())
        .unwrap_or_else(|| std::thread::available_parallelism().map(|n| n.get()).unwrap_or(4));
    match args[1].as_str() {
        "replay" => {
            if args.len() < 3 {
                usage();
            }
            let s = std::fs::read_to_string(&args[2]).unwrap_or_else(|e| {
                eprintln!("cannot read {}: {}", args[2], e);
                std::process::exit(2)
            });
            let v: serde_json::Value = serde_json::from_str(&s).unwrap_or_else(|e| {
                eprintln!("bad replay file: {}", e);
                std::process::exit(2)
            });
            let prop = v["property"].as_str().unwrap_or("").to_string();
            let want_sig = v["signature"].as_str().unwrap_or("").to_string();
            match checks::replay(&prop, &v["case"]) {
                None => {
                    eprintln!("unknown property {}", prop);
                    std::process::exit(2)
                }
                Some(vs) => {
                    if let Some(hit) = vs.iter().find(|x| x.signature == want_sig).or(vs.first()) {
                        println!("VIOLATION property={} replay={}", prop, args[2]);
                        println!("  oracle: {}", hit.oracle);
                        println!("  what:   {}", hit.detail);
                        if hit.signature != want_sig {
                            println!("  note: signature differs from recorded one ({} vs {})", hit.signature, want_sig);
                        }
                        std::process::exit(1)
                    } else {
                        eprintln!("replay did NOT reproduce a violation (harness error or the tree changed)");
                        std::process::exit(2)
                    }
                }
            }
        }
        "selftest" => {
            let what = args.get(2).map(|s| s.as_str()).unwrap_or("all");
            let mut ok = true;
            if what == "all" || what == "merlin" {
                if let Err(e) = selftest::merlin_kat(&verif_dir) {
                    eprintln!("SELFTEST FAILED: {}", e);
                    ok = false;
                }
            }
            if what == "all" || what == "determinism" {
                if let Err(e) = selftest::determinism(&verif_dir, checks::ALL) {
                    eprintln!("SELFTEST FAILED: {}", e);
                    ok = false;
                }
            }
            std::process::exit(if ok { 0 } else { 2 })
        }
        p if p.starts_with('C') => {
            let tier = match args.get(2).map(|s| s.as_str()).or(std::env::var("VERIF_TIER").ok().as_deref()) {
                Some("thorough") => Tier::Thorough,
                _ => Tier::Quick,
            };
            let prop: &'static str = Box::leak(p.to_string().into_boxed_str());
            let ctx = Ctx {
                prop,
                tier,
                seed,
                workers,
                start: Instant::now(),
                verif_dir,
            };
            match checks::dispatch(prop, &ctx) {
                Some(code) => std::process::exit(code),
                None => {
                    eprintln!("no check for {}", prop);
                    std::process::exit(2)
                }
            }
        }
        _ => usage(),
    }
}
