mod alloc;
mod checks;
mod streams;
mod codec;
mod common;
mod gen;
mod interp;
mod model;
mod refgens;
mod refipp;
mod refprover;
mod refsession;
mod runner;
mod selftest;
mod session;
mod shrink;
mod tamper;
mod faults;

use runner::*;

/// false in the guard-off build (binary bpsim-off of ../sim-nohooks): /repo linked without verif-hooks
pub const HOOKS: bool = cfg!(feature = "hooks");

#[global_allocator]
static GLOBAL: alloc::CountingAlloc = alloc::CountingAlloc;
use std::time::Instant;

/// Run the check in a child process under an address-space limit.  An
/// abnormal death (abort on allocation failure, stack overflow, signal) is
/// attributed to the cases recorded in the intent log.
fn isolate(prop: &'static str, tier: Tier, seed: u64, verif_dir: &str) -> i32 {
    use std::os::unix::process::CommandExt;
    use std::os::unix::process::ExitStatusExt;
    let exe = std::env::current_exe().expect("current_exe");
    let dir = format!("{}/sim/target/intent-{}-{}", verif_dir, prop, std::process::id());
    let _ = std::fs::remove_dir_all(&dir);
    if std::fs::create_dir_all(&dir).is_err() {
        eprintln!("HARNESS ERROR: cannot create intent dir {}", dir);
        return 2;
    }
    let mut cmd = std::process::Command::new(exe);
    cmd.arg(prop)
        .arg(tier.name())
        .env("BPSIM_CHILD", "1")
        .env("BPSIM_INTENT_DIR", &dir)
        .env("VERIF_SEED", seed.to_string())
        .env("VERIF_DIR", verif_dir);
    unsafe {
        cmd.pre_exec(|| {
            let lim = libc::rlimit {
                rlim_cur: 24u64 << 30,
                rlim_max: 24u64 << 30,
            };
            libc::setrlimit(libc::RLIMIT_AS, &lim);
            Ok(())
        });
    }
    let status = match cmd.status() {
        Ok(s) => s,
        Err(e) => {
            eprintln!("HARNESS ERROR: cannot spawn child: {}", e);
            return 2;
        }
    };
    let code = if let Some(c) = status.code() {
        if c == 0 || c == 1 || c == 2 {
            c
        } else {
            -1
        }
    } else {
        -1
    };
    if code >= 0 {
        let _ = std::fs::remove_dir_all(&dir);
        return code;
    }
    // abnormal exit: every in-flight case is a candidate
    let rdir = format!("{}/replays/{}", verif_dir, prop);
    let _ = std::fs::create_dir_all(&rdir);
    let mut n = 0;
    if let Ok(rd) = std::fs::read_dir(&dir) {
        for (i, f) in rd.flatten().enumerate() {
            if let Ok(s) = std::fs::read_to_string(f.path()) {
                if let Ok(case) = serde_json::from_str::<serde_json::Value>(&s) {
                    let path = format!("{}/{}-abort-{}.json", rdir, seed, i);
                    let body = serde_json::json!({"property": prop, "seed": seed, "run": 0, "tier": tier.name(),
                        "oracle": "process-survival", "signature": "process-abort",
                        "detail": format!("child process died abnormally ({:?}, signal {:?}) while this case was in flight", status.code(), status.signal()),
                        "case": case});
                    let _ = std::fs::write(&path, serde_json::to_string_pretty(&body).unwrap());
                    println!("VIOLATION property={} replay={}", prop, path);
                    n += 1;
                }
            }
        }
    }
    if n == 0 {
        eprintln!("HARNESS ERROR: child died abnormally ({:?}) and left no intent log", status);
        return 2;
    }
    1
}

fn usage() -> ! {
    eprintln!("usage: bpsim <C01..C18> [quick|thorough] | bpsim replay <file> | bpsim selftest <what>");
    std::process::exit(2)
}

fn main() {
    // panics inside the code under test are caught and attributed; keep stderr quiet
    std::panic::set_hook(Box::new(|info| {
        if std::env::var("BPSIM_PANIC_TRACE").is_ok() {
            eprintln!("{}", info);
        }
    }));
    let args: Vec<String> = std::env::args().collect();
    if args.len() < 2 {
        usage();
    }
    let verif_dir = std::env::var("VERIF_DIR").unwrap_or_else(|_| "/verif".to_string());
    if std::env::var("VERIF_FIXTURES").is_err() {
        std::env::set_var("VERIF_FIXTURES", &verif_dir);
    }
    let seed: u64 = std::env::var("VERIF_SEED")
        .ok()
        .and_then(|s| s.parse().ok())
        .unwrap_or(1);
    let workers: usize = std::env::var("VERIF_WORKERS")
        .ok()
        .and_then(|s| s.parse().ok())
        .unwrap_or_else(|| std::thread::available_parallelism().map(|n| n.get()).unwrap_or(4));
    match args[1].as_str() {
        "replay" => {
            if args.len() < 3 {
                usage();
            }
            let s = std::fs::read_to_string(&args[2]).unwrap_or_else(|e| {
                eprintln!("cannot read {}: {}", args[2], e);
                std::process::exit(2)
            });
            let v: serde_json::Value = serde_json::from_str(&s).unwrap_or_else(|e| {
                eprintln!("bad replay file: {}", e);
                std::process::exit(2)
            });
            let prop = v["property"].as_str().unwrap_or("").to_string();
            let want_sig = v["signature"].as_str().unwrap_or("").to_string();
            match checks::replay(&prop, &v["case"]) {
                None => {
                    eprintln!("unknown property {}", prop);
                    std::process::exit(2)
                }
                Some(vs) => {
                    if let Some(hit) = vs.iter().find(|x| x.signature == want_sig).or(vs.first()) {
                        println!("VIOLATION property={} replay={}", prop, args[2]);
                        println!("  oracle: {}", hit.oracle);
                        println!("  what:   {}", hit.detail);
                        if hit.signature != want_sig {
                            println!("  note: signature differs from recorded one ({} vs {})", hit.signature, want_sig);
                        }
                        std::process::exit(1)
                    } else {
                        eprintln!("replay did NOT reproduce a violation (harness error or the tree changed)");
                        std::process::exit(2)
                    }
                }
            }
        }
        "record-fixtures" => {
            let rev = args.get(2).cloned().unwrap_or_else(|| "unknown".into());
            std::process::exit(checks::c18::record_all(&verif_dir, &rev));
        }
        "c12-child" => {
            std::process::exit(checks::c12::child(args.get(2).map(|s| s.as_str()).unwrap_or("")));
        }
        "selftest" => {
            let what = args.get(2).map(|s| s.as_str()).unwrap_or("all");
            let mut ok = true;
            if what == "all" || what == "merlin" {
                if let Err(e) = selftest::merlin_kat(&verif_dir) {
                    eprintln!("SELFTEST FAILED: {}", e);
                    ok = false;
                }
            }
            if what == "all" || what == "isolation" {
                if let Err(e) = selftest::isolation(&verif_dir) {
                    eprintln!("SELFTEST FAILED: {}", e);
                    ok = false;
                }
            }
            if what == "all" || what == "determinism" {
                if let Err(e) = selftest::determinism(&verif_dir, checks::ALL) {
                    eprintln!("SELFTEST FAILED: {}", e);
                    ok = false;
                }
            }
            std::process::exit(if ok { 0 } else { 2 })
        }
        p if p.starts_with('C') => {
            let tier = match args.get(2).map(|s| s.as_str()).or(std::env::var("VERIF_TIER").ok().as_deref()) {
                Some("thorough") => Tier::Thorough,
                _ => Tier::Quick,
            };
            let prop: &'static str = Box::leak(p.to_string().into_boxed_str());
            if checks::ISOLATED.contains(&prop) && std::env::var("BPSIM_CHILD").is_err() {
                std::process::exit(isolate(prop, tier, seed, &verif_dir));
            }
            let ctx = Ctx {
                prop,
                tier,
                seed,
                workers,
                start: Instant::now(),
                verif_dir,
            };
            match checks::dispatch(prop, &ctx) {
                Some(code) => std::process::exit(code),
                None => {
                    eprintln!("no check for {}", prop);
                    std::process::exit(2)
                }
            }
        }
        _ => usage(),
    }
}
