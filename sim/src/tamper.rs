//! Fault catalogue on proofs in transit (F1..F5): byte-level and
//! field-level (decode -> alter one field -> re-encode) channel faults.

use crate::codec::*;
use crate::common::*;
use ark_ec::{AffineRepr, CurveGroup};
use ark_ff::{Field, PrimeField};
use ark_std::UniformRand;
use serde::{Deserialize, Serialize};

/// Point slots: 0..11 fixed points, 11.. = L_0.., then R_0..
/// Scalar slots: 0..3 = t_x, t_x_blinding, e_blinding, 3 = a, 4 = b.
#[derive(Clone, Debug, PartialEq, Serialize, Deserialize)]
pub enum Tamper {
    None,
    FlipBit(usize),
    Truncate(usize),
    Append(Vec<u8>),
    PtNegate(usize),
    PtAddB(usize),
    PtIdentity(usize),
    PtRandom(usize, u64),
    PtCopyFrom(usize, usize),
    PtSwap(usize, usize),
    PtDouble(usize),
    ScAdd(usize, S),
    ScNegate(usize),
    ScZero(usize),
    ScRandom(usize, u64),
    ScSwap(usize, usize),
    /// e_blinding += d, t_x_blinding -= d  (only the verifier's random weight
    /// separates the two relations that share the blinding base)
    ShiftBlindings(S),
    /// t_x += d and a adjusted so that a*b absorbs d
    ShiftTxAb(S),
    /// a *= c, b /= c
    RescaleAB(S),
    DropLastRound,
    DropFirstRound,
    DupLastRound,
    SwapRounds(usize, usize),
    AppendRound(u64),
    SwapLR(usize),
    /// negate L_j and R_j together
    NegRound(usize),
    /// one-sided list surgery: the two lists end up with DIFFERENT lengths
    /// (a surplus / missing point in only one of them; still decodable)
    AppendL(u64),
    AppendR(u64),
    /// surplus copy of an existing point of the same list
    DupLastR,
    DropLastL,
    DropLastR,
    /// scale the whole proof: every point and scalar times c
    ScaleAll(S),
}

impl Tamper {
    pub fn kind(&self) -> &'static str {
        match self {
            Tamper::None => "none",
            Tamper::FlipBit(_) => "F1-bitflip",
            Tamper::Truncate(_) => "F2-truncate",
            Tamper::Append(_) => "F3-append",
            Tamper::PtNegate(_) => "F4-pt-negate",
            Tamper::PtAddB(_) => "F4-pt-addB",
            Tamper::PtIdentity(_) => "F4-pt-identity",
            Tamper::PtRandom(..) => "F4-pt-random",
            Tamper::PtCopyFrom(..) => "F4-pt-copy",
            Tamper::PtSwap(..) => "F4-pt-swap",
            Tamper::PtDouble(_) => "F4-pt-double",
            Tamper::ScAdd(..) => "F4-sc-add",
            Tamper::ScNegate(_) => "F4-sc-negate",
            Tamper::ScZero(_) => "F4-sc-zero",
            Tamper::ScRandom(..) => "F4-sc-random",
            Tamper::ScSwap(..) => "F4-sc-swap",
            Tamper::ShiftBlindings(_) => "F4-shift-blindings",
            Tamper::ShiftTxAb(_) => "F4-shift-tx-ab",
            Tamper::RescaleAB(_) => "F4-rescale-ab",
            Tamper::DropLastRound => "F5-drop-last",
            Tamper::DropFirstRound => "F5-drop-first",
            Tamper::DupLastRound => "F5-dup-last",
            Tamper::SwapRounds(..) => "F5-swap-rounds",
            Tamper::AppendRound(_) => "F5-append-round",
            Tamper::AppendL(_) => "F5-surplus-L-only",
            Tamper::AppendR(_) => "F5-surplus-R-only",
            Tamper::DupLastR => "F5-surplus-R-only-copy",
            Tamper::DropLastL => "F5-missing-L-only",
            Tamper::DropLastR => "F5-missing-R-only",
            Tamper::SwapLR(_) => "F5-swap-LR",
            Tamper::NegRound(_) => "F5-neg-round",
            Tamper::ScaleAll(_) => "F4-scale-all",
        }
    }
}

pub fn n_pt_slots<G: AffineRepr>(pf: &ProofFields<G>) -> usize {
    11 + pf.l.len() + pf.r.len()
}

pub fn pt_name<G: AffineRepr>(pf: &ProofFields<G>, i: usize) -> String {
    if i < 11 {
        PT_NAMES[i].to_string()
    } else if i < 11 + pf.l.len() {
        format!("L_{}", i - 11)
    } else {
        format!("R_{}", i - 11 - pf.l.len())
    }
}

pub fn pt_get<G: AffineRepr>(pf: &ProofFields<G>, i: usize) -> G {
    if i < 11 {
        pf.pts[i]
    } else if i < 11 + pf.l.len() {
        pf.l[i - 11]
    } else {
        pf.r[i - 11 - pf.l.len()]
    }
}

pub fn pt_set<G: AffineRepr>(pf: &mut ProofFields<G>, i: usize, p: G) {
    let nl = pf.l.len();
    if i < 11 {
        pf.pts[i] = p
    } else if i < 11 + nl {
        pf.l[i - 11] = p
    } else {
        pf.r[i - 11 - nl] = p
    }
}

pub fn sc_get<G: AffineRepr>(pf: &ProofFields<G>, i: usize) -> G::ScalarField {
    match i {
        0..=2 => pf.scs[i],
        3 => pf.a,
        _ => pf.b,
    }
}

pub fn sc_set<G: AffineRepr>(pf: &mut ProofFields<G>, i: usize, s: G::ScalarField) {
    match i {
        0..=2 => pf.scs[i] = s,
        3 => pf.a = s,
        _ => pf.b = s,
    }
}

pub const SC_SLOT_NAMES: [&str; 5] = ["t_x", "t_x_blinding", "e_blinding", "a", "b"];

/// Apply a field-level tamper; byte-level tampers are applied by `apply_bytes`.
pub fn apply_fields<G: AffineRepr>(pf: &ProofFields<G>, t: &Tamper) -> Option<ProofFields<G>> {
    let mut o = pf.clone();
    let np = n_pt_slots(pf);
    match t {
        Tamper::PtNegate(i) if *i < np => {
            let p = pt_get(pf, *i);
            pt_set(&mut o, *i, (-p.into_group()).into_affine())
        }
        Tamper::PtAddB(i) if *i < np => {
            let p = pt_get(pf, *i);
            pt_set(&mut o, *i, (p.into_group() + G::generator().into_group()).into_affine())
        }
        Tamper::PtDouble(i) if *i < np => {
            let p = pt_get(pf, *i);
            pt_set(&mut o, *i, (p.into_group() + p.into_group()).into_affine())
        }
        Tamper::PtIdentity(i) if *i < np => pt_set(&mut o, *i, G::zero()),
        Tamper::PtRandom(i, seed) if *i < np => {
            let mut r = rng_from_u64(*seed, "tamper-pt");
            pt_set(&mut o, *i, G::rand(&mut r))
        }
        Tamper::PtCopyFrom(i, j) if *i < np && *j < np => pt_set(&mut o, *i, pt_get(pf, *j)),
        Tamper::PtSwap(i, j) if *i < np && *j < np => {
            pt_set(&mut o, *i, pt_get(pf, *j));
            pt_set(&mut o, *j, pt_get(pf, *i));
        }
        Tamper::ScAdd(i, d) if *i < 5 => sc_set(&mut o, *i, sc_get(pf, *i) + d.f::<G::ScalarField>()),
        Tamper::ScNegate(i) if *i < 5 => sc_set(&mut o, *i, -sc_get(pf, *i)),
        Tamper::ScZero(i) if *i < 5 => sc_set(&mut o, *i, G::ScalarField::from(0u64)),
        Tamper::ScRandom(i, seed) if *i < 5 => {
            let mut r = rng_from_u64(*seed, "tamper-sc");
            sc_set(&mut o, *i, G::ScalarField::rand(&mut r))
        }
        Tamper::ScSwap(i, j) if *i < 5 && *j < 5 => {
            sc_set(&mut o, *i, sc_get(pf, *j));
            sc_set(&mut o, *j, sc_get(pf, *i));
        }
        Tamper::ShiftBlindings(d) => {
            let d: G::ScalarField = d.f();
            o.scs[2] += d;
            o.scs[1] -= d;
        }
        Tamper::ShiftTxAb(d) => {
            let d: G::ScalarField = d.f();
            o.scs[0] += d;
            if let Some(bi) = pf.b.inverse() {
                o.a += d * bi;
            }
        }
        Tamper::RescaleAB(c) => {
            let c: G::ScalarField = c.f();
            if let Some(ci) = c.inverse() {
                o.a *= c;
                o.b *= ci;
            } else {
                return None;
            }
        }
        Tamper::DropLastRound => {
            if o.l.is_empty() {
                return None;
            }
            o.l.pop();
            o.r.pop();
        }
        Tamper::DropFirstRound => {
            if o.l.is_empty() {
                return None;
            }
            o.l.remove(0);
            o.r.remove(0);
        }
        Tamper::DupLastRound => {
            if o.l.is_empty() {
                return None;
            }
            let (l, r) = (*o.l.last().unwrap(), *o.r.last().unwrap());
            o.l.push(l);
            o.r.push(r);
        }
        Tamper::SwapRounds(i, j) => {
            if *i >= o.l.len() || *j >= o.l.len() || i == j {
                return None;
            }
            o.l.swap(*i, *j);
            o.r.swap(*i, *j);
        }
        Tamper::AppendRound(seed) => {
            let mut r = rng_from_u64(*seed, "tamper-round");
            o.l.push(G::rand(&mut r));
            o.r.push(G::rand(&mut r));
        }
        Tamper::AppendL(seed) => {
            let mut r = rng_from_u64(*seed, "tamper-round");
            o.l.push(G::rand(&mut r));
        }
        Tamper::AppendR(seed) => {
            let mut r = rng_from_u64(*seed, "tamper-round");
            o.r.push(G::rand(&mut r));
        }
        Tamper::DupLastR => {
            let p = match o.r.last() { Some(p) => *p, None => return None };
            o.r.push(p);
        }
        Tamper::DropLastL => {
            o.l.pop()?;
        }
        Tamper::DropLastR => {
            o.r.pop()?;
        }
        Tamper::SwapLR(j) => {
            if *j >= o.l.len() {
                return None;
            }
            std::mem::swap(&mut o.l[*j], &mut o.r[*j]);
        }
        Tamper::NegRound(j) => {
            if *j >= o.l.len() {
                return None;
            }
            o.l[*j] = (-o.l[*j].into_group()).into_affine();
            o.r[*j] = (-o.r[*j].into_group()).into_affine();
        }
        Tamper::ScaleAll(c) => {
            let c: G::ScalarField = c.f();
            for i in 0..np {
                let p = pt_get(pf, i);
                pt_set(&mut o, i, (p.into_group() * c).into_affine());
            }
            for i in 0..5 {
                sc_set(&mut o, i, sc_get(pf, i) * c);
            }
        }
        _ => return None,
    }
    Some(o)
}

/// Apply any tamper to an encoding.  None if not applicable to this proof.
pub fn apply_bytes<G: AffineRepr>(bytes: &[u8], t: &Tamper) -> Option<Vec<u8>> {
    match t {
        Tamper::None => Some(bytes.to_vec()),
        Tamper::FlipBit(k) => {
            if *k >= bytes.len() * 8 {
                return None;
            }
            let mut b = bytes.to_vec();
            b[k / 8] ^= 1 << (k % 8);
            Some(b)
        }
        Tamper::Truncate(n) => {
            if *n >= bytes.len() {
                return None;
            }
            Some(bytes[..*n].to_vec())
        }
        Tamper::Append(x) => {
            let mut b = bytes.to_vec();
            b.extend_from_slice(x);
            Some(b)
        }
        other => {
            let pf = ProofFields::<G>::parse(bytes).ok()?;
            let o = apply_fields(&pf, other)?;
            Some(o.encode())
        }
    }
}

/// The full field-level catalogue for a proof with `k` rounds.
pub fn catalogue(k: usize, rng: &mut Rng) -> Vec<Tamper> {
    use rand_core::RngCore;
    let np = 11 + 2 * k;
    let mut v = vec![];
    for i in 0..np {
        v.push(Tamper::PtNegate(i));
        v.push(Tamper::PtAddB(i));
        v.push(Tamper::PtIdentity(i));
        v.push(Tamper::PtDouble(i));
        v.push(Tamper::PtRandom(i, rng.next_u64()));
        v.push(Tamper::PtCopyFrom(i, (i + 1 + below(rng, np - 1)) % np));
    }
    for i in 0..np {
        for j in (i + 1)..np {
            v.push(Tamper::PtSwap(i, j));
        }
    }
    for i in 0..5 {
        v.push(Tamper::ScAdd(i, S::U(1)));
        v.push(Tamper::ScAdd(i, S::N(1)));
        v.push(Tamper::ScAdd(i, gen_scalar_nonzero::<ark_secq256k1::Fr>(rng)));
        v.push(Tamper::ScNegate(i));
        v.push(Tamper::ScZero(i));
        v.push(Tamper::ScRandom(i, rng.next_u64()));
        for j in (i + 1)..5 {
            v.push(Tamper::ScSwap(i, j));
        }
    }
    v.push(Tamper::ShiftBlindings(S::U(1)));
    v.push(Tamper::ShiftBlindings(gen_scalar_nonzero::<ark_secq256k1::Fr>(rng)));
    v.push(Tamper::ShiftTxAb(S::U(1)));
    v.push(Tamper::ShiftTxAb(gen_scalar_nonzero::<ark_secq256k1::Fr>(rng)));
    v.push(Tamper::RescaleAB(S::U(2)));
    v.push(Tamper::RescaleAB(S::N(1)));
    v.push(Tamper::ScaleAll(S::U(2)));
    v.push(Tamper::ScaleAll(S::N(1)));
    v.push(Tamper::DropLastRound);
    v.push(Tamper::DropFirstRound);
    v.push(Tamper::DupLastRound);
    v.push(Tamper::AppendRound(rng.next_u64()));
    v.push(Tamper::AppendL(rng.next_u64()));
    v.push(Tamper::AppendR(rng.next_u64()));
    v.push(Tamper::DupLastR);
    v.push(Tamper::DropLastL);
    v.push(Tamper::DropLastR);
    for j in 0..k {
        v.push(Tamper::SwapLR(j));
        v.push(Tamper::NegRound(j));
        for j2 in (j + 1)..k {
            v.push(Tamper::SwapRounds(j, j2));
        }
    }
    v.push(Tamper::Append(vec![0]));
    v.push(Tamper::Append(vec![0xff; 7]));
    v
}
