//! Self-tests run by setup_cmd: instrumented Merlin == pristine Merlin
//! (known answers), determinism of the simulator (same digests at 1 and N
//! workers, twice).

use crate::checks;
use crate::common::*;
use crate::runner::*;
use merlin::Transcript;
use rand_core::RngCore;
use std::time::Instant;

struct Konst(u8);
impl RngCore for Konst {
    fn next_u32(&mut self) -> u32 {
        0
    }
    fn next_u64(&mut self) -> u64 {
        0
    }
    fn fill_bytes(&mut self, d: &mut [u8]) {
        for x in d {
            *x = self.0;
        }
    }
    fn try_fill_bytes(&mut self, d: &mut [u8]) -> Result<(), rand_core::Error> {
        self.fill_bytes(d);
        Ok(())
    }
}
impl rand_core::CryptoRng for Konst {}

fn merlin_kat_once(recording: bool) -> serde_json::Value {
    if recording {
        merlin::sim::start_recording();
    }
    let mut t = Transcript::new(b"bpsim-kat");
    t.append_message(b"dom-sep", b"r1cs v1");
    t.append_u64(b"m", 3);
    t.append_message(b"V", &[7u8; 65]);
    let mut c1 = [0u8; 32];
    t.challenge_bytes(b"y", &mut c1);
    let mut c2 = [0u8; 64];
    t.challenge_bytes(b"z", &mut c2);
    let mut cl = t.clone();
    let mut c3 = [0u8; 32];
    cl.challenge_bytes(b"r", &mut c3);
    t.append_message(b"empty", b"");
    let mut c4 = [0u8; 32];
    t.challenge_bytes(b"u", &mut c4);
    let mut rng = t
        .build_rng()
        .rekey_with_witness_bytes(b"v_blinding", &[9u8; 32])
        .finalize(&mut Konst(0x42));
    let mut r1 = [0u8; 8];
    rng.fill_bytes(&mut r1);
    let mut r2 = [0u8; 40];
    rng.fill_bytes(&mut r2);
    if recording {
        let log = merlin::sim::stop_recording();
        assert!(log.len() >= 12, "recorder saw {} ops", log.len());
    }
    serde_json::json!({"c1": hex(&c1), "c2": hex(&c2), "c3": hex(&c3), "c4": hex(&c4), "r1": hex(&r1), "r2": hex(&r2)})
}

pub fn merlin_kat(verif_dir: &str) -> Result<(), String> {
    let p = format!("{}/fixtures/merlin_kat.json", verif_dir);
    let want: serde_json::Value = serde_json::from_str(
        &std::fs::read_to_string(&p).map_err(|e| format!("{}: {}", p, e))?,
    )
    .map_err(|e| e.to_string())?;
    for rec in [false, true] {
        let got = merlin_kat_once(rec);
        if got != want {
            return Err(format!(
                "vendored Merlin (recording={}) deviates from the pristine crate's known answers",
                rec
            ));
        }
    }
    // strobe.rs must be byte-identical to the registry copy when that is present
    let home = std::env::var("CARGO_HOME").unwrap_or_else(|_| {
        format!("{}/.cargo", std::env::var("HOME").unwrap_or_else(|_| "/root".into()))
    });
    let mut compared = false;
    if let Ok(rd) = std::fs::read_dir(format!("{}/registry/src", home)) {
        for d in rd.flatten() {
            let cand = d.path().join("merlin-3.0.0/src/strobe.rs");
            if let Ok(orig) = std::fs::read(&cand) {
                let mine = std::fs::read(format!("{}/sim/vendor/merlin/src/strobe.rs", verif_dir))
                    .map_err(|e| e.to_string())?;
                if orig != mine {
                    return Err("vendored strobe.rs differs from the registry copy".into());
                }
                compared = true;
            }
        }
    }
    println!(
        "selftest merlin: known answers OK (recording off and on); strobe.rs {}",
        if compared {
            "byte-identical to registry copy"
        } else {
            "registry copy not found, comparison skipped"
        }
    );
    Ok(())
}

/// Same seed => same digest, at 1 worker and at N workers, run twice.
pub fn determinism(verif_dir: &str, props: &[&'static str]) -> Result<(), String> {
    let scratch = format!("{}/sim/target/selftest-evidence", verif_dir);
    let _ = std::fs::create_dir_all(&scratch);
    for prop in props {
        let mut digests = vec![];
        for (workers, seed) in [(1usize, 7u64), (16, 7), (5, 7)] {
            let ctx = Ctx {
                prop,
                tier: Tier::Quick,
                seed,
                workers,
                start: Instant::now(),
                verif_dir: scratch.clone(),
            };
            std::env::set_var("BPSIM_SELFTEST_SCALE", "40");
            let code = checks::dispatch(prop, &ctx).ok_or("no such check")?;
            std::env::remove_var("BPSIM_SELFTEST_SCALE");
            if code == 2 {
                return Err(format!("{} harness error in selftest", prop));
            }
            let ev: serde_json::Value = serde_json::from_str(
                &std::fs::read_to_string(format!("{}/evidence/{}.json", scratch, prop))
                    .map_err(|e| e.to_string())?,
            )
            .map_err(|e| e.to_string())?;
            digests.push((
                ev["coverage"]["event_log_digest"].as_str().unwrap_or("").to_string(),
                ev["coverage"]["evaluations"].as_u64().unwrap_or(0),
                ev["coverage"]["distinct_nontrivial"].as_u64().unwrap_or(0),
            ));
        }
        // ... and in a separate process (fresh address space, fresh thread ids)
        if let Ok(exe) = std::env::current_exe() {
            let pdir = format!("{}/proc", scratch);
            let _ = std::fs::create_dir_all(&pdir);
            let out = std::process::Command::new(exe)
                .arg(prop)
                .arg("quick")
                .env("VERIF_DIR", &pdir)
                .env("VERIF_SEED", "7")
                .env("VERIF_WORKERS", "3")
                .env("BPSIM_SELFTEST_SCALE", "40")
                .env("BPSIM_CHILD", "1")
                .output();
            if let Ok(o) = out {
                if o.status.code() == Some(0) {
                    if let Ok(t) = std::fs::read_to_string(format!("{}/evidence/{}.json", pdir, prop)) {
                        if let Ok(ev) = serde_json::from_str::<serde_json::Value>(&t) {
                            digests.push((
                                ev["coverage"]["event_log_digest"].as_str().unwrap_or("").to_string(),
                                ev["coverage"]["evaluations"].as_u64().unwrap_or(0),
                                ev["coverage"]["distinct_nontrivial"].as_u64().unwrap_or(0),
                            ));
                        }
                    }
                } else {
                    return Err(format!("{} child process exited with {:?}", prop, o.status.code()));
                }
            }
        }
        if digests.iter().any(|d| *d != digests[0]) {
            return Err(format!("{} is not deterministic: {:?}", prop, digests));
        }
        println!("selftest determinism {}: {:?} identical at 1/16/5 workers and in a separate process ({} runs compared)", prop, digests[0], digests.len());
    }
    Ok(())
}

/// The child-process isolation must turn an abort into an attributed VIOLATION.
pub fn isolation(verif_dir: &str) -> Result<(), String> {
    let exe = std::env::current_exe().map_err(|e| e.to_string())?;
    let scratch = format!("{}/sim/target/selftest-evidence", verif_dir);
    let _ = std::fs::create_dir_all(&scratch);
    let out = std::process::Command::new(exe)
        .arg("C08")
        .arg("quick")
        .env("VERIF_DIR", &scratch)
        .env("BPSIM_SELFTEST_SCALE", "200")
        .env("BPSIM_TEST_ABORT", "3")
        .env_remove("BPSIM_CHILD")
        .output()
        .map_err(|e| e.to_string())?;
    let so = String::from_utf8_lossy(&out.stdout);
    if out.status.code() != Some(1) || !so.contains("VIOLATION property=C08") {
        return Err(format!("isolation selftest: exit {:?}, stdout {}", out.status.code(), so));
    }
    println!("selftest isolation: an abort inside a case is reported as a VIOLATION with the in-flight case as replay file");
    Ok(())
}
