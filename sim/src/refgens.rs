//! RefGens: the generator derivation written from the reference revision's
//! specification, independent of `generators.rs`.
//!   gen(curve, kind, party j, index i) = (i+1)-th output of
//!   G::rand(ChaCha20(SHA3-512("GeneratorsChain" || kind || LE32(j))[..32]))
//!   B = curve generator, B~ = G::rand(ChaCha20(SHA3-512(uncompressed(B))[..32]))

use ark_ec::AffineRepr;
use ark_serialize::CanonicalSerialize;
use ark_std::UniformRand;
use rand_chacha::ChaCha20Rng;
use rand_core::SeedableRng;
use sha3::{Digest, Sha3_512};
use std::any::{Any, TypeId};
use std::collections::HashMap;
use std::sync::{Arc, Mutex, OnceLock};

pub fn chain_rng(kind: u8, party: u32) -> ChaCha20Rng {
    let mut h = Sha3_512::new();
    h.update(b"GeneratorsChain");
    h.update([kind]);
    h.update(party.to_le_bytes());
    let d = h.finalize();
    let mut seed = [0u8; 32];
    seed.copy_from_slice(&d[..32]);
    ChaCha20Rng::from_seed(seed)
}

pub fn ref_chain<G: AffineRepr>(kind: u8, party: u32, n: usize) -> Vec<G> {
    let mut rng = chain_rng(kind, party);
    (0..n).map(|_| G::rand(&mut rng)).collect()
}

pub fn ref_pedersen<G: AffineRepr>() -> (G, G) {
    let b = G::generator();
    let mut bytes = Vec::new();
    b.serialize_uncompressed(&mut bytes).unwrap();
    let mut h = Sha3_512::new();
    h.update(&bytes);
    let d = h.finalize();
    let mut seed = [0u8; 32];
    seed.copy_from_slice(&d[..32]);
    let mut rng = ChaCha20Rng::from_seed(seed);
    (b, G::rand(&mut rng))
}

type Cache = Mutex<HashMap<(TypeId, u8, u32), Arc<dyn Any + Send + Sync>>>;
static CACHE: OnceLock<Cache> = OnceLock::new();

/// Cached prefix of a reference chain (grown on demand).
pub fn ref_chain_cached<G: AffineRepr>(kind: u8, party: u32, n: usize) -> Arc<Vec<G>> {
    let cache = CACHE.get_or_init(|| Mutex::new(HashMap::new()));
    let key = (TypeId::of::<G>(), kind, party);
    {
        let g = cache.lock().unwrap();
        if let Some(v) = g.get(&key) {
            let v: Arc<Vec<G>> = v.clone().downcast::<Vec<G>>().unwrap();
            if v.len() >= n {
                return v;
            }
        }
    }
    let want = std::cmp::max(n.next_power_of_two(), 64);
    let v: Arc<Vec<G>> = Arc::new(ref_chain::<G>(kind, party, want));
    cache.lock().unwrap().insert(key, v.clone());
    v
}
