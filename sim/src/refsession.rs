//! RefSchedule + RefVerifier: executes a statement on RefCS against its own
//! (pristine-semantics) Merlin transcript, producing
//!   * the expected transcript operation list (C06), and
//!   * the verdict of the three unbatched relations (C03), with explicit
//!     round-by-round folding of the generator vectors.

use crate::codec::ProofFields;
use crate::common::{LABELS, TLABELS};
use crate::model::*;
use crate::refgens;
use ark_ec::{AffineRepr, CurveGroup};
use ark_ff::{Field, PrimeField};
use ark_serialize::CanonicalSerialize;
use ark_std::{One, UniformRand, Zero};
use merlin::Transcript;
use rand_chacha::ChaCha20Rng;
use rand_core::SeedableRng;

#[derive(Clone, Debug, PartialEq, Eq)]
pub enum SOp {
    Append { label: Vec<u8>, msg: Vec<u8> },
    Challenge { label: Vec<u8>, out: Vec<u8> },
}

impl SOp {
    pub fn brief(&self) -> String {
        match self {
            SOp::Append { label, msg } => format!(
                "append {:?} len={}",
                String::from_utf8_lossy(label),
                msg.len()
            ),
            SOp::Challenge { label, out } => format!(
                "challenge {:?} len={}",
                String::from_utf8_lossy(label),
                out.len()
            ),
        }
    }
    /// label and length only (the wire-stability schedule of C18)
    pub fn shape(&self) -> (bool, String, usize) {
        match self {
            SOp::Append { label, msg } => {
                (false, String::from_utf8_lossy(label).to_string(), msg.len())
            }
            SOp::Challenge { label, out } => {
                (true, String::from_utf8_lossy(label).to_string(), out.len())
            }
        }
    }
}

/// Reference transcript: a Merlin transcript that logs its own schedule.
pub struct RefTranscript {
    pub t: Transcript,
    pub sched: Vec<SOp>,
    /// when set: after every operation, what a weight squeezed from a clone
    /// of the transcript AT THAT POINT under label "r" would be
    pub probe_r: Option<Vec<Vec<u8>>>,
}

impl RefTranscript {
    pub fn new(label: &'static [u8]) -> Self {
        let t = merlin::sim::with_recording_paused(|| Transcript::new(label));
        RefTranscript {
            t,
            sched: vec![SOp::Append {
                label: b"dom-sep".to_vec(),
                msg: label.to_vec(),
            }],
            probe_r: None,
        }
    }
    pub fn append(&mut self, label: &'static [u8], msg: &[u8]) {
        merlin::sim::with_recording_paused(|| self.t.append_message(label, msg));
        self.sched.push(SOp::Append {
            label: label.to_vec(),
            msg: msg.to_vec(),
        });
        self.probe();
    }
    fn probe(&mut self) {
        if self.probe_r.is_some() {
            let mut out = vec![0u8; 32];
            merlin::sim::with_recording_paused(|| {
                let mut c = self.t.clone();
                c.challenge_bytes(b"r", &mut out);
            });
            self.probe_r.as_mut().unwrap().push(out);
        }
    }
    pub fn append_u64(&mut self, label: &'static [u8], x: u64) {
        self.append(label, &x.to_le_bytes());
    }
    pub fn append_point<G: AffineRepr>(&mut self, label: &'static [u8], p: &G) {
        let mut b = Vec::new();
        p.serialize_uncompressed(&mut b).unwrap();
        self.append(label, &b);
    }
    pub fn append_scalar<F: PrimeField>(&mut self, label: &'static [u8], s: &F) {
        let mut b = Vec::new();
        s.serialize_uncompressed(&mut b).unwrap();
        self.append(label, &b);
    }
    pub fn challenge_bytes(&mut self, label: &'static [u8], n: usize) -> Vec<u8> {
        let mut out = vec![0u8; n];
        merlin::sim::with_recording_paused(|| self.t.challenge_bytes(label, &mut out));
        self.sched.push(SOp::Challenge {
            label: label.to_vec(),
            out: out.clone(),
        });
        self.probe();
        out
    }
    /// challenge scalar: 32 challenge bytes seed ChaCha20, then `F::rand`.
    pub fn challenge_scalar<F: PrimeField>(&mut self, label: &'static [u8]) -> F {
        let b = self.challenge_bytes(label, 32);
        let mut seed = [0u8; 32];
        seed.copy_from_slice(&b);
        let mut rng = ChaCha20Rng::from_seed(seed);
        F::rand(&mut rng)
    }
}

pub fn bases_for<G: AffineRepr>(b: &Bases) -> (G, G) {
    let (db, dbb) = refgens::ref_pedersen::<G>();
    let seeded = |seed: u64, which: &str| -> G {
        let mut r = crate::common::rng_from_u64(seed, which);
        G::rand(&mut r)
    };
    match b {
        Bases::Default => (db, dbb),
        Bases::Seeded(s) => (seeded(*s, "B"), seeded(*s, "Bb")),
        Bases::SeededBlinding(s) => (db, seeded(*s, "Bb")),
        Bases::SeededValue(s) => (seeded(*s, "B"), dbb),
    }
}

#[derive(Clone, Debug)]
pub struct RefResult<F: PrimeField> {
    pub sched: Vec<SOp>,
    /// index in `sched` after which the first point-validity failure occurs
    /// (the real verifier stops there); None if all mandatory points are fine
    pub stop_at: Option<usize>,
    pub shape_ok: bool,
    pub rel_a: bool,
    pub rel_b: bool,
    pub rel_c: bool,
    pub y: F,
    pub z: F,
    pub u: F,
    pub x: F,
    pub w: F,
    pub ipp_u: Vec<F>,
    pub n1: usize,
    pub n2: usize,
    pub padded: usize,
    pub m: usize,
    pub phase2_chals: Vec<F>,
    /// the reference transcript after the run, for follow-up challenges
    pub followup: Vec<u8>,
    /// r-candidates per schedule position (only with `probe`)
    pub r_candidates: Vec<Vec<u8>>,
}

impl<F: PrimeField> RefResult<F> {
    pub fn accept(&self) -> bool {
        self.shape_ok && self.rel_a && self.rel_b && self.rel_c
    }
    pub fn why(&self) -> String {
        format!(
            "shape={} a={} b={} c={}",
            self.shape_ok, self.rel_a, self.rel_b, self.rel_c
        )
    }
}

fn ref_exec<F: PrimeField>(cs: &mut RefCS<F>, op: &Op, rt: &mut RefTranscript) {
    match op {
        Op::Alloc(_) => {
            let _ = cs.allocate(None);
        }
        Op::AllocMul(_) => {
            let _ = cs.allocate_multiplier(None);
        }
        Op::Mul(l, r) => {
            cs.multiply(l, r);
        }
        Op::Constrain(e) => cs.constrain(e),
        Op::UserData { label, data } => rt.append(LABELS[*label], data),
        Op::Challenge { label } => {
            let c = rt.challenge_scalar::<F>(LABELS[*label]);
            cs.chals.push(c);
        }
        Op::OverwriteGate { .. } => {}
        Op::Commit { .. } | Op::Randomized(_) => {}
    }
}

/// Execute the statement as the verifier role of the reference model and
/// evaluate the unbatched relations on the given proof fields.
pub fn ref_verify<G: AffineRepr>(
    st: &Statement,
    commitments: &[G],
    pf: &ProofFields<G>,
) -> RefResult<G::ScalarField> {
    ref_verify_opt::<G>(st, commitments, pf, false)
}

/// `probe`: also record, after every schedule position, the weight a
/// verifier would get if it (wrongly) derived its batching weight there.
pub fn ref_verify_opt<G: AffineRepr>(
    st: &Statement,
    commitments: &[G],
    pf: &ProofFields<G>,
    probe: bool,
) -> RefResult<G::ScalarField> {
    type Fr<G> = <G as AffineRepr>::ScalarField;
    let (bb, bbl) = bases_for::<G>(&st.bases);
    let mut rt = RefTranscript::new(TLABELS[st.tlabel]);
    if probe {
        rt.probe_r = Some(vec![vec![]]);
    }
    for (l, d) in &st.pre {
        rt.append(LABELS[*l], d);
    }
    rt.append(b"dom-sep", b"r1cs v1");
    let mut cs = RefCS::<Fr<G>>::new(false);
    let mut deferred: Vec<&Vec<Op>> = vec![];
    let mut ci = 0;
    let mut vs: Vec<G> = vec![];
    for op in &st.ops {
        match op {
            Op::Commit { .. } => {
                let c = if ci < commitments.len() {
                    commitments[ci]
                } else {
                    G::zero()
                };
                ci += 1;
                rt.append_point(b"V", &c);
                vs.push(c);
                cs.commit(None);
            }
            Op::Randomized(b) => deferred.push(b),
            other => ref_exec(&mut cs, other, &mut rt),
        }
    }
    rt.append_u64(b"m", cs.m as u64);
    let mut stop_at: Option<usize> = None;
    let mut rel_a = true;
    let mut mandatory = |rt: &mut RefTranscript, label: &'static [u8], p: &G| {
        if p.is_zero() {
            rel_a = false;
            if stop_at.is_none() {
                stop_at = Some(rt.sched.len());
            }
        }
        rt.append_point(label, p);
    };
    mandatory(&mut rt, b"A_I1", &pf.pts[0]);
    mandatory(&mut rt, b"A_O1", &pf.pts[1]);
    mandatory(&mut rt, b"S1", &pf.pts[2]);
    cs.begin_phase2();
    if deferred.is_empty() {
        rt.append(b"dom-sep", b"r1cs-1phase");
    } else {
        rt.append(b"dom-sep", b"r1cs-2phase");
        for block in &deferred {
            for op in block.iter() {
                ref_exec(&mut cs, op, &mut rt);
            }
        }
    }
    let n1 = cs.n1();
    let n = cs.gates;
    let n2 = n - n1;
    let padded = cs.padded();
    rt.append_point(b"A_I2", &pf.pts[3]);
    rt.append_point(b"A_O2", &pf.pts[4]);
    rt.append_point(b"S2", &pf.pts[5]);
    let y: Fr<G> = rt.challenge_scalar(b"y");
    let z: Fr<G> = rt.challenge_scalar(b"z");
    mandatory(&mut rt, b"T_1", &pf.pts[6]);
    mandatory(&mut rt, b"T_3", &pf.pts[7]);
    mandatory(&mut rt, b"T_4", &pf.pts[8]);
    mandatory(&mut rt, b"T_5", &pf.pts[9]);
    mandatory(&mut rt, b"T_6", &pf.pts[10]);
    let u: Fr<G> = rt.challenge_scalar(b"u");
    let x: Fr<G> = rt.challenge_scalar(b"x");
    rt.append_scalar(b"t_x", &pf.scs[0]);
    rt.append_scalar(b"t_x_blinding", &pf.scs[1]);
    rt.append_scalar(b"e_blinding", &pf.scs[2]);
    let w: Fr<G> = rt.challenge_scalar(b"w");

    // shape: |L| = |R| = log2 N
    let k = padded.trailing_zeros() as usize;
    let shape_ok = pf.l.len() == k && pf.r.len() == k;
    let mut ipp_u = vec![];
    if shape_ok {
        rt.append(b"dom-sep", b"ipp v1");
        rt.append_u64(b"n", padded as u64);
        for j in 0..k {
            mandatory(&mut rt, b"L", &pf.l[j]);
            mandatory(&mut rt, b"R", &pf.r[j]);
            ipp_u.push(rt.challenge_scalar::<Fr<G>>(b"u"));
        }
    }
    let _ = &mut mandatory;

    let (wl, wr, wo, wv, wc) = cs.weights(z);
    let t_x = pf.scs[0];
    let t_xb = pf.scs[1];
    let e_b = pf.scs[2];
    let y_inv = y.inverse().unwrap_or_else(Fr::<G>::zero);
    let mut y_inv_pows = Vec::with_capacity(padded);
    let mut y_pows = Vec::with_capacity(padded);
    {
        let mut a = Fr::<G>::one();
        let mut b = Fr::<G>::one();
        for _ in 0..padded {
            y_inv_pows.push(a);
            y_pows.push(b);
            a *= y_inv;
            b *= y;
        }
    }
    // (b) t_x*B + t~*B~ = x^2 (wc + delta) B + x^2 sum wV_j V_j + sum x^i T_i
    let mut delta = Fr::<G>::zero();
    for i in 0..n {
        delta += y_inv_pows[i] * wr[i] * wl[i];
    }
    let xx = x * x;
    let lhs = bb.into_group() * t_x + bbl.into_group() * t_xb;
    let mut rhs = bb.into_group() * (xx * (wc + delta));
    for (j, v) in vs.iter().enumerate() {
        rhs += v.into_group() * (xx * wv[j]);
    }
    let x3 = xx * x;
    let xp = [x, x3, x3 * x, x3 * xx, x3 * x3];
    for (i, p) in xp.iter().enumerate() {
        rhs += pf.pts[6 + i].into_group() * *p;
    }
    let rel_b = lhs == rhs;

    // (c) inner-product opening with explicit folding
    let mut rel_c = false;
    if shape_ok {
        let gs = refgens::ref_chain_cached::<G>(b'G', 0, padded);
        let hs = refgens::ref_chain_cached::<G>(b'H', 0, padded);
        let gfac = |i: usize| if i < n1 { Fr::<G>::one() } else { u };
        let mut gv: Vec<G::Group> = (0..padded)
            .map(|i| gs[i].into_group() * gfac(i))
            .collect();
        let mut hv: Vec<G::Group> = (0..padded)
            .map(|i| hs[i].into_group() * (gfac(i) * y_inv_pows[i]))
            .collect();
        let q = bb.into_group() * w;
        let mut p = pf.pts[0].into_group() * x
            + pf.pts[1].into_group() * xx
            + pf.pts[2].into_group() * x3
            + (pf.pts[3].into_group() * x + pf.pts[4].into_group() * xx + pf.pts[5].into_group() * x3)
                * u
            - bbl.into_group() * e_b
            + q * t_x;
        for i in 0..padded {
            let (wli, wri, woi) = if i < n {
                (wl[i], wr[i], wo[i])
            } else {
                (Fr::<G>::zero(), Fr::<G>::zero(), Fr::<G>::zero())
            };
            p += gv[i] * (x * y_inv_pows[i] * wri);
            p += hv[i] * (x * wli + woi - y_pows[i]);
        }
        let mut len = padded;
        for j in 0..k {
            let uj = ipp_u[j];
            let uj_inv = uj.inverse().unwrap_or_else(Fr::<G>::zero);
            let half = len / 2;
            for i in 0..half {
                gv[i] = gv[i] * uj_inv + gv[half + i] * uj;
                hv[i] = hv[i] * uj + hv[half + i] * uj_inv;
            }
            len = half;
            p += pf.l[j].into_group() * (uj * uj) + pf.r[j].into_group() * (uj_inv * uj_inv);
        }
        let rhs = gv[0] * pf.a + hv[0] * pf.b + q * (pf.a * pf.b);
        rel_c = p == rhs;
    }

    let r_candidates = rt.probe_r.take().unwrap_or_default();
    let followup = rt.challenge_bytes(b"bpsim-followup", 32);
    rt.sched.pop();
    RefResult {
        sched: rt.sched,
        stop_at,
        shape_ok,
        rel_a,
        rel_b,
        rel_c,
        y,
        z,
        u,
        x,
        w,
        ipp_u,
        n1,
        n2,
        padded,
        m: cs.m,
        phase2_chals: cs.chals.clone(),
        followup,
        r_candidates,
    }
}

/// Affine normalisation helper.
pub fn aff<G: AffineRepr>(p: G::Group) -> G {
    p.into_affine()
}
