//! Reference inner-product argument: explicit folding, written from the
//! protocol (one round = cross terms L, R; challenge u; fold a, b, G', H').

use crate::refsession::RefTranscript;
use ark_ec::{AffineRepr, CurveGroup};
use ark_ff::Field;
use ark_std::{One, Zero};

#[derive(Clone, Debug, PartialEq)]
pub struct RefIpp<G: AffineRepr> {
    pub l: Vec<G>,
    pub r: Vec<G>,
    pub a: G::ScalarField,
    pub b: G::ScalarField,
}

fn ip<F: Field>(a: &[F], b: &[F]) -> F {
    let mut s = F::zero();
    for (x, y) in a.iter().zip(b.iter()) {
        s += *x * *y;
    }
    s
}

/// P = <a, G'> + <b, H'> + <a,b> Q with G' = gf o G, H' = hf o H
pub fn commitment<G: AffineRepr>(
    q: &G,
    gf: &[G::ScalarField],
    hf: &[G::ScalarField],
    g: &[G],
    h: &[G],
    a: &[G::ScalarField],
    b: &[G::ScalarField],
) -> G::Group {
    let mut p = q.into_group() * ip(a, b);
    for i in 0..g.len() {
        p += g[i].into_group() * (gf[i] * a[i]);
        p += h[i].into_group() * (hf[i] * b[i]);
    }
    p
}

/// Reference prover.  Appends to `rt` exactly what the protocol absorbs.
pub fn prove<G: AffineRepr>(
    rt: &mut RefTranscript,
    q: &G,
    gf: &[G::ScalarField],
    hf: &[G::ScalarField],
    g: &[G],
    h: &[G],
    a: &[G::ScalarField],
    b: &[G::ScalarField],
) -> RefIpp<G> {
    let n = g.len();
    rt.append(b"dom-sep", b"ipp v1");
    rt.append_u64(b"n", n as u64);
    let mut gv: Vec<G::Group> = (0..n).map(|i| g[i].into_group() * gf[i]).collect();
    let mut hv: Vec<G::Group> = (0..n).map(|i| h[i].into_group() * hf[i]).collect();
    let mut av = a.to_vec();
    let mut bv = b.to_vec();
    let qg = q.into_group();
    let mut ls = vec![];
    let mut rs = vec![];
    let mut len = n;
    while len > 1 {
        let half = len / 2;
        let mut l = qg * ip(&av[..half], &bv[half..len]);
        let mut r = qg * ip(&av[half..len], &bv[..half]);
        for i in 0..half {
            l += gv[half + i] * av[i] + hv[i] * bv[half + i];
            r += gv[i] * av[half + i] + hv[half + i] * bv[i];
        }
        let (la, ra) = (l.into_affine(), r.into_affine());
        rt.append_point(b"L", &la);
        rt.append_point(b"R", &ra);
        ls.push(la);
        rs.push(ra);
        let u: G::ScalarField = rt.challenge_scalar(b"u");
        let ui = u.inverse().unwrap_or_else(G::ScalarField::zero);
        for i in 0..half {
            av[i] = av[i] * u + ui * av[half + i];
            bv[i] = bv[i] * ui + u * bv[half + i];
            gv[i] = gv[i] * ui + gv[half + i] * u;
            hv[i] = hv[i] * u + hv[half + i] * ui;
        }
        len = half;
    }
    RefIpp {
        l: ls,
        r: rs,
        a: av[0],
        b: bv[0],
    }
}

/// Reference verifier: shape, non-identity cross terms, explicit folding.
pub fn verify<G: AffineRepr>(
    rt: &mut RefTranscript,
    claimed_n: usize,
    pf: &RefIpp<G>,
    p: &G,
    q: &G,
    gf: &[G::ScalarField],
    hf: &[G::ScalarField],
    g: &[G],
    h: &[G],
) -> bool {
    let k = pf.l.len();
    if pf.r.len() != k || k >= 32 || claimed_n != (1usize << k) || g.len() != claimed_n || h.len() != claimed_n {
        return false;
    }
    if gf.len() != claimed_n || hf.len() != claimed_n {
        return false;
    }
    rt.append(b"dom-sep", b"ipp v1");
    rt.append_u64(b"n", claimed_n as u64);
    let n = claimed_n;
    let mut gv: Vec<G::Group> = (0..n).map(|i| g[i].into_group() * gf[i]).collect();
    let mut hv: Vec<G::Group> = (0..n).map(|i| h[i].into_group() * hf[i]).collect();
    let mut acc = p.into_group();
    let mut len = n;
    for j in 0..k {
        if pf.l[j].is_zero() || pf.r[j].is_zero() {
            return false;
        }
        rt.append_point(b"L", &pf.l[j]);
        rt.append_point(b"R", &pf.r[j]);
        let u: G::ScalarField = rt.challenge_scalar(b"u");
        let Some(ui) = u.inverse() else { return false };
        let half = len / 2;
        for i in 0..half {
            gv[i] = gv[i] * ui + gv[half + i] * u;
            hv[i] = hv[i] * u + hv[half + i] * ui;
        }
        len = half;
        acc += pf.l[j].into_group() * (u * u) + pf.r[j].into_group() * (ui * ui);
    }
    let rhs = gv[0] * pf.a + hv[0] * pf.b + q.into_group() * (pf.a * pf.b);
    let _ = G::ScalarField::one();
    acc == rhs
}
