//! F14: faulty `Read` / `Write` wrappers (the simulated disk / socket).

use serde::{Deserialize, Serialize};
use std::io::{self, Read, Write};

#[derive(Clone, Debug, PartialEq, Serialize, Deserialize)]
pub enum StreamFault {
    /// benign: deliver at most `chunk` bytes per call
    Short { chunk: usize },
    /// benign: every `every`-th call fails with ErrorKind::Interrupted
    Interrupted { every: usize, chunk: usize },
    /// hard: ErrorKind::Other once `at` bytes have been transferred
    ErrorAt { at: usize },
    /// hard: end of file after `at` bytes (reader) / device full (writer: Ok(0))
    EofAt { at: usize },
}

impl StreamFault {
    pub fn benign(&self) -> bool {
        matches!(self, StreamFault::Short { .. } | StreamFault::Interrupted { .. })
    }
    pub fn kind(&self) -> &'static str {
        match self {
            StreamFault::Short { .. } => "F14-short-io",
            StreamFault::Interrupted { .. } => "F14-interrupted",
            StreamFault::ErrorAt { .. } => "F14-io-error",
            StreamFault::EofAt { .. } => "F14-eof-or-full",
        }
    }
}

pub struct FaultyReader<'a> {
    pub data: &'a [u8],
    pub pos: usize,
    pub calls: usize,
    pub fault: StreamFault,
    pub fired: usize,
}

impl<'a> FaultyReader<'a> {
    pub fn new(data: &'a [u8], fault: StreamFault) -> Self {
        FaultyReader {
            data,
            pos: 0,
            calls: 0,
            fault,
            fired: 0,
        }
    }
}

impl<'a> Read for FaultyReader<'a> {
    fn read(&mut self, buf: &mut [u8]) -> io::Result<usize> {
        self.calls += 1;
        let remaining = self.data.len() - self.pos;
        let mut n = std::cmp::min(buf.len(), remaining);
        match &self.fault {
            StreamFault::Short { chunk } => {
                if n > *chunk {
                    self.fired += 1;
                }
                n = std::cmp::min(n, std::cmp::max(1, *chunk));
            }
            StreamFault::Interrupted { every, chunk } => {
                if *every > 0 && self.calls % *every == 0 {
                    self.fired += 1;
                    return Err(io::Error::new(io::ErrorKind::Interrupted, "EINTR"));
                }
                n = std::cmp::min(n, std::cmp::max(1, *chunk));
            }
            StreamFault::ErrorAt { at } => {
                if self.pos >= *at {
                    self.fired += 1;
                    return Err(io::Error::new(io::ErrorKind::Other, "EIO"));
                }
                n = std::cmp::min(n, *at - self.pos);
            }
            StreamFault::EofAt { at } => {
                if self.pos >= *at {
                    self.fired += 1;
                    return Ok(0);
                }
                n = std::cmp::min(n, *at - self.pos);
            }
        }
        buf[..n].copy_from_slice(&self.data[self.pos..self.pos + n]);
        self.pos += n;
        Ok(n)
    }
}

pub struct FaultyWriter {
    pub out: Vec<u8>,
    pub calls: usize,
    pub fault: StreamFault,
    pub fired: usize,
}

impl FaultyWriter {
    pub fn new(fault: StreamFault) -> Self {
        FaultyWriter {
            out: vec![],
            calls: 0,
            fault,
            fired: 0,
        }
    }
}

impl Write for FaultyWriter {
    fn write(&mut self, buf: &[u8]) -> io::Result<usize> {
        self.calls += 1;
        let mut n = buf.len();
        match &self.fault {
            StreamFault::Short { chunk } => {
                if n > *chunk {
                    self.fired += 1;
                }
                n = std::cmp::min(n, std::cmp::max(1, *chunk));
            }
            StreamFault::Interrupted { every, chunk } => {
                if *every > 0 && self.calls % *every == 0 {
                    self.fired += 1;
                    return Err(io::Error::new(io::ErrorKind::Interrupted, "EINTR"));
                }
                n = std::cmp::min(n, std::cmp::max(1, *chunk));
            }
            StreamFault::ErrorAt { at } => {
                if self.out.len() >= *at {
                    self.fired += 1;
                    return Err(io::Error::new(io::ErrorKind::Other, "ENOSPC"));
                }
                n = std::cmp::min(n, *at - self.out.len());
            }
            StreamFault::EofAt { at } => {
                if self.out.len() >= *at {
                    self.fired += 1;
                    return Ok(0);
                }
                n = std::cmp::min(n, *at - self.out.len());
            }
        }
        if buf.is_empty() {
            return Ok(0);
        }
        self.out.extend_from_slice(&buf[..n]);
        Ok(n)
    }
    fn flush(&mut self) -> io::Result<()> {
        Ok(())
    }
}
