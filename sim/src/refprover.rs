//! RefProver: recomputes every proof field from (statement with witness,
//! nonces), independently of prover.rs, following RefSchedule for challenges.

use crate::codec::ProofFields;
use crate::common::{LABELS, TLABELS};
use crate::model::*;
use crate::refgens;
use crate::refipp;
use crate::refsession::{bases_for, RefTranscript};
use ark_ec::{AffineRepr, CurveGroup};
use ark_ff::Field;
use ark_std::{One, Zero};

#[derive(Clone, Debug)]
pub struct Nonces<F> {
    pub beta_i1: F,
    pub beta_o1: F,
    pub sigma1: F,
    pub s_l1: Vec<F>,
    pub s_r1: Vec<F>,
    pub beta_i2: F,
    pub beta_o2: F,
    pub sigma2: F,
    pub s_l2: Vec<F>,
    pub s_r2: Vec<F>,
    pub tau: [F; 5],
}

fn exec_prover<F: ark_ff::PrimeField>(cs: &mut RefCS<F>, op: &Op, rt: &mut RefTranscript) {
    match op {
        Op::Alloc(Some(v)) => {
            let x = cs.eval_val(v);
            let _ = cs.allocate(Some(x));
        }
        Op::AllocMul(Some((l, r))) => {
            let (x, y) = (cs.eval_val(l), cs.eval_val(r));
            let _ = cs.allocate_multiplier(Some((x, y)));
        }
        Op::Mul(l, r) => {
            cs.multiply(l, r);
        }
        Op::Constrain(e) => cs.constrain(e),
        Op::UserData { label, data } => rt.append(LABELS[*label], data),
        Op::Challenge { label } => {
            let c = rt.challenge_scalar::<F>(LABELS[*label]);
            cs.chals.push(c);
        }
        Op::OverwriteGate { gate, l, r, o } => {
            let (a, b, c) = (cs.eval_val(l), cs.eval_val(r), cs.eval_val(o));
            cs.overwrite(*gate, a, b, c);
        }
        _ => {}
    }
}

pub struct RefProved<G: AffineRepr> {
    pub fields: ProofFields<G>,
    pub commitments: Vec<G>,
    pub n1: usize,
    pub n2: usize,
    /// l(x), r(x) before padding (for the N = 1 cross-check)
    pub l_x: Vec<G::ScalarField>,
    pub r_x: Vec<G::ScalarField>,
}

/// `nonces` is a function of (n1, n2) so that the caller can size the vectors
/// once the phase split is known.
pub fn ref_prove<G: AffineRepr>(
    st: &Statement,
    nonces: &dyn Fn(usize, usize) -> Option<Nonces<G::ScalarField>>,
) -> Option<RefProved<G>> {
    ref_prove_adv::<G>(st, nonces, None)
}

/// Adversarial variant: `moves = [m_I, m_O, m_S]` moves the mass `m * D` (D a fixed
/// point unrelated to the witness) from the first-phase commitment to its
/// second-phase counterpart BEFORE either is absorbed, i.e. sends
/// (A_I1 - m_I D, A_I2 + m_I D), (A_O1 - m_O D, A_O2 + m_O D), (S1 - m_S D, S2 + m_S D)
/// and computes everything else honestly from the resulting transcript.  The two
/// members of each pair enter the opening relation with the same power of x and
/// differ only by the factor u, which is not known when they are sent: a correct
/// verifier rejects (relation (c) is off by x^k (u - 1) m D), a verifier whose
/// coefficient of the second-phase point degenerates to that of the first-phase
/// point for some circuit shape accepts.
pub fn ref_prove_adv<G: AffineRepr>(
    st: &Statement,
    nonces: &dyn Fn(usize, usize) -> Option<Nonces<G::ScalarField>>,
    moves: Option<[G::ScalarField; 3]>,
) -> Option<RefProved<G>> {
    type Fr<G> = <G as AffineRepr>::ScalarField;
    let (bb, bbl) = bases_for::<G>(&st.bases);
    let mut rt = RefTranscript::new(TLABELS[st.tlabel]);
    for (l, d) in &st.pre {
        rt.append(LABELS[*l], d);
    }
    rt.append(b"dom-sep", b"r1cs v1");
    let mut cs = RefCS::<Fr<G>>::new(true);
    let mut deferred: Vec<&Vec<Op>> = vec![];
    let mut commitments = vec![];
    for op in &st.ops {
        match op {
            Op::Commit { v, r } => {
                let (vf, rf): (Fr<G>, Fr<G>) = (v.f(), r.f());
                let c = (bb.into_group() * vf + bbl.into_group() * rf).into_affine();
                rt.append_point(b"V", &c);
                commitments.push(c);
                cs.commit(Some((vf, rf)));
            }
            Op::Randomized(b) => deferred.push(b),
            other => exec_prover(&mut cs, other, &mut rt),
        }
    }
    rt.append_u64(b"m", cs.m as u64);
    let n1 = cs.gates;
    // generators (party 0)
    let gens = |n: usize| {
        (
            refgens::ref_chain_cached::<G>(b'G', 0, n),
            refgens::ref_chain_cached::<G>(b'H', 0, n),
        )
    };
    // phase-1 commitments need the nonces, whose sizes need n2: run a dry
    // pass of phase 2 is impossible (challenges depend on A_I1..); instead the
    // caller's closure is asked with n2 = usize::MAX first for phase-1 parts.
    let nz1 = nonces(n1, usize::MAX)?;
    let (g1, h1) = gens(std::cmp::max(n1, 1));
    let msm = |pairs: &[(G::Group, Fr<G>)]| -> G::Group {
        let mut acc = G::Group::zero();
        for (p, s) in pairs {
            acc += *p * *s;
        }
        acc
    };
    let mut a_i1 = bbl.into_group() * nz1.beta_i1;
    let mut a_o1 = bbl.into_group() * nz1.beta_o1;
    let mut s1 = bbl.into_group() * nz1.sigma1;
    for i in 0..n1 {
        a_i1 += g1[i].into_group() * cs.a_l[i] + h1[i].into_group() * cs.a_r[i];
        a_o1 += g1[i].into_group() * cs.a_o[i];
        s1 += g1[i].into_group() * nz1.s_l1[i] + h1[i].into_group() * nz1.s_r1[i];
    }
    let _ = msm;
    let mass: G::Group = g1[0].into_group() * Fr::<G>::from(7u64) + h1[0].into_group() * Fr::<G>::from(11u64) + bbl.into_group() * Fr::<G>::from(3u64);
    if let Some(m) = &moves {
        a_i1 -= mass * m[0];
        a_o1 -= mass * m[1];
        s1 -= mass * m[2];
    }
    let (a_i1, a_o1, s1) = (a_i1.into_affine(), a_o1.into_affine(), s1.into_affine());
    rt.append_point(b"A_I1", &a_i1);
    rt.append_point(b"A_O1", &a_o1);
    rt.append_point(b"S1", &s1);
    cs.begin_phase2();
    if deferred.is_empty() {
        rt.append(b"dom-sep", b"r1cs-1phase");
    } else {
        rt.append(b"dom-sep", b"r1cs-2phase");
        for b in &deferred {
            for op in b.iter() {
                exec_prover(&mut cs, op, &mut rt);
            }
        }
    }
    let n = cs.gates;
    let n2 = n - n1;
    let padded = cs.padded();
    let mut nz = nonces(n1, n2)?;
    if n2 == 0 {
        // no second-phase commitments: nothing to blind
        nz.beta_i2 = Fr::<G>::zero();
        nz.beta_o2 = Fr::<G>::zero();
        nz.sigma2 = Fr::<G>::zero();
        nz.s_l2.clear();
        nz.s_r2.clear();
    }
    let (gs, hs) = gens(padded);
    let (a_i2, a_o2, s2) = if n2 > 0 {
        let mut ai = bbl.into_group() * nz.beta_i2;
        let mut ao = bbl.into_group() * nz.beta_o2;
        let mut s = bbl.into_group() * nz.sigma2;
        for i in n1..n {
            ai += gs[i].into_group() * cs.a_l[i] + hs[i].into_group() * cs.a_r[i];
            ao += gs[i].into_group() * cs.a_o[i];
            s += gs[i].into_group() * nz.s_l2[i - n1] + hs[i].into_group() * nz.s_r2[i - n1];
        }
        (ai.into_affine(), ao.into_affine(), s.into_affine())
    } else {
        (G::zero(), G::zero(), G::zero())
    };
    let (a_i2, a_o2, s2) = match &moves {
        Some(m) => ((a_i2.into_group() + mass * m[0]).into_affine(), (a_o2.into_group() + mass * m[1]).into_affine(), (s2.into_group() + mass * m[2]).into_affine()),
        None => (a_i2, a_o2, s2),
    };
    rt.append_point(b"A_I2", &a_i2);
    rt.append_point(b"A_O2", &a_o2);
    rt.append_point(b"S2", &s2);
    let y: Fr<G> = rt.challenge_scalar(b"y");
    let z: Fr<G> = rt.challenge_scalar(b"z");
    let (wl, wr, wo, wv, _wc) = cs.weights(z);
    let y_inv = y.inverse()?;
    let mut yp = vec![Fr::<G>::one(); padded + 1];
    let mut yip = vec![Fr::<G>::one(); padded + 1];
    for i in 1..=padded {
        yp[i] = yp[i - 1] * y;
        yip[i] = yip[i - 1] * y_inv;
    }
    let s_l: Vec<Fr<G>> = nz.s_l1.iter().chain(nz.s_l2.iter()).cloned().collect();
    let s_r: Vec<Fr<G>> = nz.s_r1.iter().chain(nz.s_r2.iter()).cloned().collect();
    // l(X) = l1 X + l2 X^2 + l3 X^3 ; r(X) = r0 + r1 X + r3 X^3
    let l1: Vec<Fr<G>> = (0..n).map(|i| cs.a_l[i] + yip[i] * wr[i]).collect();
    let l2: Vec<Fr<G>> = (0..n).map(|i| cs.a_o[i]).collect();
    let l3: Vec<Fr<G>> = s_l.clone();
    let r0: Vec<Fr<G>> = (0..n).map(|i| wo[i] - yp[i]).collect();
    let r1: Vec<Fr<G>> = (0..n).map(|i| yp[i] * cs.a_r[i] + wl[i]).collect();
    let r3: Vec<Fr<G>> = (0..n).map(|i| yp[i] * s_r[i]).collect();
    let ip = |a: &[Fr<G>], b: &[Fr<G>]| -> Fr<G> {
        let mut s = Fr::<G>::zero();
        for (x, y) in a.iter().zip(b.iter()) {
            s += *x * *y;
        }
        s
    };
    let t1 = ip(&l1, &r0);
    let t2 = ip(&l1, &r1) + ip(&l2, &r0);
    let t3 = ip(&l2, &r1) + ip(&l3, &r0);
    let t4 = ip(&l1, &r3) + ip(&l3, &r1);
    let t5 = ip(&l2, &r3);
    let t6 = ip(&l3, &r3);
    let tc = [t1, t3, t4, t5, t6];
    let mut tpts = [G::zero(); 5];
    for i in 0..5 {
        tpts[i] = (bb.into_group() * tc[i] + bbl.into_group() * nz.tau[i]).into_affine();
    }
    rt.append_point(b"T_1", &tpts[0]);
    rt.append_point(b"T_3", &tpts[1]);
    rt.append_point(b"T_4", &tpts[2]);
    rt.append_point(b"T_5", &tpts[3]);
    rt.append_point(b"T_6", &tpts[4]);
    let u: Fr<G> = rt.challenge_scalar(b"u");
    let x: Fr<G> = rt.challenge_scalar(b"x");
    let x2 = x * x;
    let x3 = x2 * x;
    let t2_blind: Fr<G> = (0..cs.m).map(|j| wv[j] * cs.vb[j]).sum();
    let t_x = t1 * x + t2 * x2 + t3 * x3 + t4 * x3 * x + t5 * x3 * x2 + t6 * x3 * x3;
    let t_xb = nz.tau[0] * x + t2_blind * x2 + nz.tau[1] * x3 + nz.tau[2] * x3 * x + nz.tau[3] * x3 * x2 + nz.tau[4] * x3 * x3;
    let beta_i = nz.beta_i1 + u * nz.beta_i2;
    let beta_o = nz.beta_o1 + u * nz.beta_o2;
    let sigma = nz.sigma1 + u * nz.sigma2;
    let e_b = x * beta_i + x2 * beta_o + x3 * sigma;
    rt.append_scalar(b"t_x", &t_x);
    rt.append_scalar(b"t_x_blinding", &t_xb);
    rt.append_scalar(b"e_blinding", &e_b);
    let w: Fr<G> = rt.challenge_scalar(b"w");
    let l_x: Vec<Fr<G>> = (0..n).map(|i| l1[i] * x + l2[i] * x2 + l3[i] * x3).collect();
    let r_x: Vec<Fr<G>> = (0..n).map(|i| r0[i] + r1[i] * x + r3[i] * x3).collect();
    let mut lv = l_x.clone();
    let mut rv = r_x.clone();
    for i in n..padded {
        lv.push(Fr::<G>::zero());
        rv.push(-yp[i]);
    }
    let q = (bb.into_group() * w).into_affine();
    let gf: Vec<Fr<G>> = (0..padded).map(|i| if i < n1 { Fr::<G>::one() } else { u }).collect();
    let hf: Vec<Fr<G>> = (0..padded).map(|i| gf[i] * yip[i]).collect();
    let ipp = refipp::prove::<G>(&mut rt, &q, &gf, &hf, &gs[..padded], &hs[..padded], &lv, &rv);
    Some(RefProved {
        fields: ProofFields {
            pts: [a_i1, a_o1, s1, a_i2, a_o2, s2, tpts[0], tpts[1], tpts[2], tpts[3], tpts[4]],
            scs: [t_x, t_xb, e_b],
            l: ipp.l,
            r: ipp.r,
            a: ipp.a,
            b: ipp.b,
        },
        commitments,
        n1,
        n2,
        l_x,
        r_x,
    })
}
