//! Minimisation of failing cases: structural shrinking of statements
//! (delete ops with re-indexing, simplify scalars / expressions / context)
//! and a bounded greedy loop that keeps a candidate only if the SAME oracle
//! of the same property still fails.

use crate::common::S;
use crate::gen;
use crate::model::*;
use ark_ff::PrimeField;
use serde_json::Value;

type At = (usize, Option<usize>);

fn exec_order(st: &Statement) -> Vec<At> {
    let mut v = vec![];
    for (i, op) in st.ops.iter().enumerate() {
        if !matches!(op, Op::Randomized(_)) {
            v.push((i, None));
        }
    }
    for (i, op) in st.ops.iter().enumerate() {
        if let Op::Randomized(b) = op {
            for j in 0..b.len() {
                v.push((i, Some(j)));
            }
        }
    }
    v
}

fn get_op<'a>(st: &'a Statement, at: At) -> &'a Op {
    match at.1 {
        None => &st.ops[at.0],
        Some(j) => match &st.ops[at.0] {
            Op::Randomized(b) => &b[j],
            _ => unreachable!(),
        },
    }
}

fn expr_ok<F: PrimeField>(sym: &RefCS<F>, e: &Expr) -> bool {
    fn coef_ok<F: PrimeField>(sym: &RefCS<F>, c: &Coef) -> bool {
        match c {
            Coef::Lit(_) => true,
            Coef::Chal(_, idx) => idx.iter().all(|i| *i < sym.chals.len()),
        }
    }
    fn go<F: PrimeField>(sym: &RefCS<F>, e: &Expr) -> bool {
        match e {
            Expr::KC(c) => coef_ok(sym, c),
            Expr::Add(a, b) | Expr::Sub(a, b) => go(sym, a) && go(sym, b),
            Expr::Neg(a) => go(sym, a),
            Expr::Scale(a, c) => go(sym, a) && coef_ok(sym, c),
            Expr::Terms(ts, _) => ts.iter().all(|(_, c)| coef_ok(sym, c)),
            _ => true,
        }
    }
    sym.refs_in_range(e) && go(sym, e)
}

fn val_ok<F: PrimeField>(sym: &RefCS<F>, v: &Val) -> bool {
    match v {
        Val::Lit(_) => true,
        Val::Eval(e) | Val::EvalPlus(e, _) => expr_ok(sym, e),
        Val::EvalMul(a, b) => expr_ok(sym, a) && expr_ok(sym, b),
    }
}

/// All references in range at the time of use (execution order)?
pub fn valid_statement(st: &Statement) -> bool {
    type F = ark_secq256k1::Fr;
    let mut sym = RefCS::<F>::new(false);
    let mut phase2 = false;
    for at in exec_order(st) {
        if at.1.is_some() && !phase2 {
            sym.begin_phase2();
            phase2 = true;
        }
        let op = get_op(st, at);
        let ok = match op {
            Op::Alloc(Some(v)) => val_ok(&sym, v),
            Op::AllocMul(Some((l, r))) => val_ok(&sym, l) && val_ok(&sym, r),
            Op::Mul(l, r) => expr_ok(&sym, l) && expr_ok(&sym, r),
            Op::Constrain(e) => expr_ok(&sym, e),
            Op::OverwriteGate { gate, l, r, o } => *gate < sym.gates && val_ok(&sym, l) && val_ok(&sym, r) && val_ok(&sym, o),
            Op::Challenge { .. } => at.1.is_some(),
            Op::Commit { .. } => at.1.is_none(),
            Op::Randomized(_) => false,
            _ => true,
        };
        if !ok {
            return false;
        }
        gen::sym_apply(&mut sym, op);
    }
    true
}

/// Remove the op at `at`, re-indexing table references.  None if something
/// later refers to what it produced.
pub fn remove_op(st: &Statement, at: At) -> Option<Statement> {
    // table position of the op's outputs
    let mut pos = 0usize;
    let mut found = None;
    for a in exec_order(st) {
        let k = op_outputs(get_op(st, a));
        if a == at {
            found = Some((pos, k));
            break;
        }
        pos += k;
    }
    let mut s = st.clone();
    match at.1 {
        None => {
            if matches!(s.ops[at.0], Op::Randomized(ref b) if !b.is_empty()) {
                return None;
            }
            s.ops.remove(at.0);
        }
        Some(j) => {
            if let Op::Randomized(b) = &mut s.ops[at.0] {
                b.remove(j);
            }
        }
    }
    if let Some((p, k)) = found {
        if k > 0 {
            let bad = std::cell::Cell::new(false);
            map_statement(&mut s, &|i| {
                if i >= p && i < p + k {
                    bad.set(true);
                    i
                } else if i >= p + k {
                    i - k
                } else {
                    i
                }
            });
            if bad.get() {
                return None;
            }
        }
    }
    if valid_statement(&s) {
        Some(s)
    } else {
        None
    }
}

fn simpler_scalars(s: &S) -> Vec<S> {
    match s {
        S::U(0) => vec![],
        S::U(1) => vec![S::U(0)],
        S::U(_) => vec![S::U(0), S::U(1), S::U(2)],
        S::N(1) => vec![S::U(1)],
        S::N(_) => vec![S::U(1), S::N(1)],
        S::B(_) => vec![S::U(1), S::U(2), S::N(1)],
    }
}

fn simpler_exprs(e: &Expr) -> Vec<Expr> {
    let mut v = vec![];
    match e {
        Expr::Add(a, b) | Expr::Sub(a, b) => {
            v.push((**a).clone());
            v.push((**b).clone());
            for x in simpler_exprs(a) {
                v.push(match e {
                    Expr::Add(..) => Expr::add(x, (**b).clone()),
                    _ => Expr::sub(x, (**b).clone()),
                });
            }
            for x in simpler_exprs(b) {
                v.push(match e {
                    Expr::Add(..) => Expr::add((**a).clone(), x),
                    _ => Expr::sub((**a).clone(), x),
                });
            }
        }
        Expr::Neg(a) => {
            v.push((**a).clone());
            for x in simpler_exprs(a) {
                v.push(Expr::neg(x));
            }
        }
        Expr::Scale(a, c) => {
            v.push((**a).clone());
            if !matches!(c, Coef::Lit(S::U(2))) {
                v.push(Expr::scale((**a).clone(), Coef::Lit(S::U(2))));
            }
            for x in simpler_exprs(a) {
                v.push(Expr::scale(x, c.clone()));
            }
        }
        Expr::Terms(ts, r) => {
            for i in 0..ts.len() {
                let mut t = ts.clone();
                t.remove(i);
                v.push(Expr::Terms(t, *r));
            }
        }
        Expr::K(s) => {
            for x in simpler_scalars(s) {
                v.push(Expr::K(x));
            }
        }
        Expr::KC(_) => v.push(Expr::K(S::U(1))),
        Expr::Raw(_) => v.push(Expr::K(S::U(1))),
        _ => {}
    }
    v
}

fn op_variants(op: &Op) -> Vec<Op> {
    let mut v = vec![];
    match op {
        Op::Commit { v: a, r } => {
            for x in simpler_scalars(a) {
                v.push(Op::Commit { v: x, r: r.clone() });
            }
            for x in simpler_scalars(r) {
                v.push(Op::Commit { v: a.clone(), r: x });
            }
        }
        Op::Alloc(Some(Val::Lit(s))) => {
            for x in simpler_scalars(s) {
                v.push(Op::Alloc(Some(Val::Lit(x))));
            }
        }
        Op::Alloc(Some(Val::Eval(e))) => {
            for x in simpler_exprs(e) {
                v.push(Op::Alloc(Some(Val::Eval(x))));
            }
        }
        Op::AllocMul(Some((Val::Lit(a), Val::Lit(b)))) => {
            for x in simpler_scalars(a) {
                v.push(Op::AllocMul(Some((Val::Lit(x), Val::Lit(b.clone())))));
            }
            for x in simpler_scalars(b) {
                v.push(Op::AllocMul(Some((Val::Lit(a.clone()), Val::Lit(x)))));
            }
        }
        Op::Mul(l, r) => {
            for x in simpler_exprs(l) {
                v.push(Op::Mul(x, r.clone()));
            }
            for x in simpler_exprs(r) {
                v.push(Op::Mul(l.clone(), x));
            }
        }
        Op::Constrain(e) => {
            for x in simpler_exprs(e) {
                v.push(Op::Constrain(x));
            }
        }
        Op::UserData { label, data } if !data.is_empty() => v.push(Op::UserData { label: *label, data: vec![] }),
        _ => {}
    }
    v
}

/// Candidate simplifications of a statement, simplest-first.  Each comes with
/// the top-level index map (old top-level index -> new, None if removed) so
/// that faults addressed by position can follow.
pub fn shrink_statement(st: &Statement) -> Vec<(Statement, Option<At>)> {
    let mut out: Vec<(Statement, Option<At>)> = vec![];
    // delete ops, last first (later ops have fewer dependants)
    let mut order = exec_order(st);
    order.reverse();
    for at in order {
        if let Some(s) = remove_op(st, at) {
            out.push((s, Some(at)));
        }
    }
    // drop empty blocks
    for (i, op) in st.ops.iter().enumerate() {
        if matches!(op, Op::Randomized(b) if b.is_empty()) {
            let mut s = st.clone();
            s.ops.remove(i);
            out.push((s, Some((i, None))));
        }
    }
    // context
    if !st.pre.is_empty() {
        let mut s = st.clone();
        s.pre.clear();
        out.push((s, None));
    }
    if st.tlabel != 0 {
        let mut s = st.clone();
        s.tlabel = 0;
        out.push((s, None));
    }
    if st.bases != Bases::Default {
        let mut s = st.clone();
        s.bases = Bases::Default;
        out.push((s, None));
    }
    // simplify single ops
    for at in exec_order(st) {
        for nv in op_variants(get_op(st, at)) {
            let mut s = st.clone();
            match at.1 {
                None => s.ops[at.0] = nv,
                Some(j) => {
                    if let Op::Randomized(b) = &mut s.ops[at.0] {
                        b[j] = nv;
                    }
                }
            }
            if valid_statement(&s) {
                out.push((s, None));
            }
        }
    }
    out
}

/// Where does position `at` end up after `removed` was deleted?
pub fn follow_at(at: At, removed: At) -> Option<At> {
    match (at, removed) {
        (a, r) if a == r => None,
        ((i, j), (ri, None)) => {
            if i == ri {
                None
            } else if i > ri {
                Some((i - 1, j))
            } else {
                Some((i, j))
            }
        }
        ((i, Some(j)), (ri, Some(rj))) if i == ri => {
            if j > rj {
                Some((i, Some(j - 1)))
            } else {
                Some((i, Some(j)))
            }
        }
        (a, _) => Some(a),
    }
}

/// Bounded greedy minimisation.  `fails(candidate)` must return true iff the
/// same oracle still fails.
pub fn minimise(
    case: Value,
    shrink: &dyn Fn(&Value) -> Vec<Value>,
    fails: &dyn Fn(&Value) -> bool,
    budget: usize,
) -> (Value, usize) {
    let mut cur = case;
    let mut used = 0usize;
    'outer: loop {
        for cand in shrink(&cur) {
            if used >= budget {
                break 'outer;
            }
            used += 1;
            if fails(&cand) {
                cur = cand;
                continue 'outer;
            }
        }
        break;
    }
    (cur, used)
}
