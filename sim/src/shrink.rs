//! Minimisation of failing cases: structural shrinking of statements
//! (delete ops with re-indexing, simplify scalars / expressions / context)
//! and a bounded greedy loop that keeps a candidate only if the SAME oracle
//! of the same property still fails.

use crate::common::S;
use crate::gen;
use crate::model::*;
use ark_ff::PrimeField;
use serde_json::Value;

type At = (usize, Option<usize>);

fn exec_order(st: &Statement) -> Vec<At> {
    let mut v = vec![];
    for (i, op) in st.ops.iter().enumerate() {
        if !matches!(op, Op::Randomized(_)) {
            v.push((i, None));
        }
    }
    for (i, op) in st.ops.iter().enumerate() {
        if let Op::Randomized(b) = op {
            for j in 0..b.len() {
                v.push((i, Some(j)));
            }
        }
    }
    v
}

fn get_op<'a>(st: &'a Statement, at: At) -> &'a Op {
    match at.1 {
        None => &st.ops[at.0],
        Some(j) => match &st.ops[at.0] {
            Op::Randomized(b) => &b[j],
            _ => unreachable!(),
        },
    }
}

fn expr_ok<F: PrimeField>(sym: &RefCS<F>, e: &Expr) -> bool {
    fn coef_ok<F: PrimeField>(sym: &RefCS<F>, c: &Coef) -> bool {
        match c {
            Coef::Lit(_) => true,
            Coef::Chal(_, idx) => idx.iter().all(|i| *i < sym.chals.len()),
        }
    }
    fn go<F: PrimeField>(sym: &RefCS<F>, e: &Expr) -> bool {
        match e {
            Expr::KC(c) => coef_ok(sym, c),
            Expr::Add(a, b) | Expr::Sub(a, b) => go(sym, a) && go(sym, b),
            Expr::Neg(a) => go(sym, a),
            Expr::Scale(a, c) => go(sym, a) && coef_ok(sym, c),
            Expr::Terms(ts, _) => ts.iter().all(|(_, c)| coef_ok(sym, c)),
            _ => true,
        }
    }
    sym.refs_in_range(e) && go(sym, e)
}

/// A constraint may name a commitment or gate that comes into existence later (hand-built
/// handle, forward reference): its raw references are checked against the FINAL counts.
fn constrain_ok<F: PrimeField>(sym: &RefCS<F>, e: &Expr, fin: (usize, usize)) -> bool {
    fn raw_ok(k: &VK, fin: (usize, usize)) -> bool {
        match k {
            VK::L(i) | VK::R(i) | VK::O(i) => *i < fin.0,
            VK::C(i) => *i < fin.1,
            VK::One => true,
        }
    }
    fn strip(e: &Expr, fin: (usize, usize), ok: &mut bool) -> Expr {
        match e {
            Expr::Raw(k) => {
                *ok &= raw_ok(k, fin);
                Expr::K(S::U(1))
            }
            Expr::Add(a, b) => Expr::add(strip(a, fin, ok), strip(b, fin, ok)),
            Expr::Sub(a, b) => Expr::sub(strip(a, fin, ok), strip(b, fin, ok)),
            Expr::Neg(a) => Expr::neg(strip(a, fin, ok)),
            Expr::Scale(a, c) => Expr::scale(strip(a, fin, ok), c.clone()),
            Expr::Terms(ts, f) => Expr::Terms(
                ts.iter()
                    .filter(|(t, _)| match t {
                        TermVar::Raw(k) => {
                            *ok &= raw_ok(k, fin);
                            false
                        }
                        _ => true,
                    })
                    .cloned()
                    .collect(),
                *f,
            ),
            other => other.clone(),
        }
    }
    let mut ok = true;
    let rest = strip(e, fin, &mut ok);
    ok && expr_ok(sym, &rest)
}

fn val_ok<F: PrimeField>(sym: &RefCS<F>, v: &Val) -> bool {
    match v {
        Val::Lit(_) => true,
        Val::Eval(e) | Val::EvalPlus(e, _) => expr_ok(sym, e),
        Val::EvalMul(a, b) => expr_ok(sym, a) && expr_ok(sym, b),
    }
}

/// All references in range at the time of use (execution order)?
pub fn valid_statement(st: &Statement) -> bool {
    type F = ark_secq256k1::Fr;
    let fin = {
        let mut fsym = RefCS::<F>::new(false);
        let mut p2 = false;
        for at in exec_order(st) {
            if at.1.is_some() && !p2 {
                fsym.begin_phase2();
                p2 = true;
            }
            match get_op(st, at) {
                Op::Commit { .. } | Op::Alloc(_) | Op::AllocMul(_) => gen::sym_apply(&mut fsym, get_op(st, at)),
                Op::Mul(..) => {
                    let _ = fsym.allocate_multiplier(None);
                }
                _ => {}
            }
        }
        (fsym.gates, fsym.m)
    };
    let mut sym = RefCS::<F>::new(false);
    let mut phase2 = false;
    for at in exec_order(st) {
        if at.1.is_some() && !phase2 {
            sym.begin_phase2();
            phase2 = true;
        }
        let op = get_op(st, at);
        let ok = match op {
            Op::Alloc(Some(v)) => val_ok(&sym, v),
            Op::AllocMul(Some((l, r))) => val_ok(&sym, l) && val_ok(&sym, r),
            Op::Mul(l, r) => expr_ok(&sym, l) && expr_ok(&sym, r),
            Op::Constrain(e) => constrain_ok(&sym, e, fin),
            Op::OverwriteGate { gate, l, r, o } => *gate < sym.gates && val_ok(&sym, l) && val_ok(&sym, r) && val_ok(&sym, o),
            Op::Challenge { .. } => at.1.is_some(),
            Op::Commit { .. } => at.1.is_none(),
            Op::Randomized(_) => false,
            _ => true,
        };
        if !ok {
            return false;
        }
        gen::sym_apply(&mut sym, op);
    }
    true
}

/// Remove a set of ops (a top-level `Randomized` op goes with its whole
/// body), re-indexing table references.  None if something that stays refers
/// to what they produced, or the result is not a valid program.
pub fn remove_ops(st: &Statement, remove: &[At]) -> Option<Statement> {
    let is_removed = |a: At| remove.iter().any(|r| *r == a || (r.1.is_none() && r.0 == a.0));
    // table ranges produced by removed ops, in execution order
    let mut pos = 0usize;
    let mut ranges: Vec<(usize, usize)> = vec![];
    for a in exec_order(st) {
        let k = op_outputs(get_op(st, a));
        if k > 0 && is_removed(a) {
            ranges.push((pos, k));
        }
        pos += k;
    }
    let mut s = st.clone();
    // delete inner ops first (descending), then top-level ops (descending)
    let mut inner: Vec<At> = remove.iter().cloned().filter(|a| a.1.is_some()).collect();
    inner.sort();
    inner.reverse();
    for a in inner {
        if remove.iter().any(|r| r.1.is_none() && r.0 == a.0) {
            continue;
        }
        if let Op::Randomized(b) = &mut s.ops[a.0] {
            if a.1.unwrap() < b.len() {
                b.remove(a.1.unwrap());
            }
        }
    }
    let mut top: Vec<usize> = remove.iter().filter(|a| a.1.is_none()).map(|a| a.0).collect();
    top.sort();
    top.dedup();
    top.reverse();
    for i in top {
        if i < s.ops.len() {
            s.ops.remove(i);
        }
    }
    if !ranges.is_empty() {
        let bad = std::cell::Cell::new(false);
        map_statement(&mut s, &|i| {
            let mut shift = 0;
            for (p, k) in &ranges {
                if i >= *p && i < *p + *k {
                    bad.set(true);
                    return i;
                }
                if i >= *p + *k {
                    shift += *k;
                }
            }
            i - shift
        });
        if bad.get() {
            return None;
        }
    }
    if valid_statement(&s) {
        Some(s)
    } else {
        None
    }
}

pub fn remove_op(st: &Statement, at: At) -> Option<Statement> {
    remove_ops(st, &[at])
}

fn simpler_scalars(s: &S) -> Vec<S> {
    match s {
        S::U(0) => vec![],
        S::U(1) => vec![S::U(0)],
        S::U(_) => vec![S::U(0), S::U(1), S::U(2)],
        S::N(1) => vec![S::U(1)],
        S::N(_) => vec![S::U(1), S::N(1)],
        S::B(_) => vec![S::U(1), S::U(2), S::N(1)],
    }
}

fn simpler_exprs(e: &Expr) -> Vec<Expr> {
    let mut v = vec![];
    match e {
        Expr::Add(a, b) | Expr::Sub(a, b) => {
            v.push((**a).clone());
            v.push((**b).clone());
            for x in simpler_exprs(a) {
                v.push(match e {
                    Expr::Add(..) => Expr::add(x, (**b).clone()),
                    _ => Expr::sub(x, (**b).clone()),
                });
            }
            for x in simpler_exprs(b) {
                v.push(match e {
                    Expr::Add(..) => Expr::add((**a).clone(), x),
                    _ => Expr::sub((**a).clone(), x),
                });
            }
        }
        Expr::Neg(a) => {
            v.push((**a).clone());
            for x in simpler_exprs(a) {
                v.push(Expr::neg(x));
            }
        }
        Expr::Scale(a, c) => {
            v.push((**a).clone());
            if !matches!(c, Coef::Lit(S::U(2))) {
                v.push(Expr::scale((**a).clone(), Coef::Lit(S::U(2))));
            }
            for x in simpler_exprs(a) {
                v.push(Expr::scale(x, c.clone()));
            }
        }
        Expr::Terms(ts, r) => {
            for i in 0..ts.len() {
                let mut t = ts.clone();
                t.remove(i);
                v.push(Expr::Terms(t, *r));
            }
        }
        Expr::K(s) => {
            for x in simpler_scalars(s) {
                v.push(Expr::K(x));
            }
        }
        Expr::KC(_) => v.push(Expr::K(S::U(1))),
        Expr::Raw(_) => v.push(Expr::K(S::U(1))),
        _ => {}
    }
    v
}

fn op_variants(op: &Op) -> Vec<Op> {
    let mut v = vec![];
    match op {
        Op::Commit { v: a, r } => {
            for x in simpler_scalars(a) {
                v.push(Op::Commit { v: x, r: r.clone() });
            }
            for x in simpler_scalars(r) {
                v.push(Op::Commit { v: a.clone(), r: x });
            }
        }
        Op::Alloc(Some(Val::Lit(s))) => {
            for x in simpler_scalars(s) {
                v.push(Op::Alloc(Some(Val::Lit(x))));
            }
        }
        Op::Alloc(Some(Val::Eval(e))) => {
            for x in simpler_exprs(e) {
                v.push(Op::Alloc(Some(Val::Eval(x))));
            }
        }
        Op::AllocMul(Some((Val::Lit(a), Val::Lit(b)))) => {
            for x in simpler_scalars(a) {
                v.push(Op::AllocMul(Some((Val::Lit(x), Val::Lit(b.clone())))));
            }
            for x in simpler_scalars(b) {
                v.push(Op::AllocMul(Some((Val::Lit(a.clone()), Val::Lit(x)))));
            }
        }
        Op::Mul(l, r) => {
            for x in simpler_exprs(l) {
                v.push(Op::Mul(x, r.clone()));
            }
            for x in simpler_exprs(r) {
                v.push(Op::Mul(l.clone(), x));
            }
        }
        Op::Constrain(e) => {
            for x in simpler_exprs(e) {
                v.push(Op::Constrain(x));
            }
        }
        Op::UserData { label, data } if !data.is_empty() => v.push(Op::UserData { label: *label, data: vec![] }),
        _ => {}
    }
    v
}

/// Candidate simplifications of a statement, biggest deletions first
/// (delta-debugging style chunks of top-level ops, then single ops, then
/// context, then per-op simplifications).  Bounded: at most ~250 candidates
/// per round however long the program is.  The second component names a
/// single removed position (so that faults addressed by position can follow);
/// chunk deletions report None and are only valid for position-free faults.
pub fn shrink_statement(st: &Statement) -> Vec<(Statement, Option<At>)> {
    let mut out: Vec<(Statement, Option<At>)> = vec![];
    let n = st.ops.len();
    // chunks of contiguous top-level ops: n/2, n/4, ... down to 2
    let mut size = n / 2;
    while size >= 2 {
        let mut start = n.saturating_sub(size);
        let mut tried = 0;
        loop {
            let chunk: Vec<At> = (start..std::cmp::min(n, start + size)).map(|i| (i, None)).collect();
            if let Some(s) = remove_ops(st, &chunk) {
                out.push((s, None));
            }
            tried += 1;
            if start == 0 || tried >= 8 {
                break;
            }
            start = start.saturating_sub(size);
        }
        size /= 2;
    }
    // single ops, last first (later ops have fewer dependants)
    let mut order = exec_order(st);
    order.reverse();
    for at in order.iter().take(80) {
        if let Some(s) = remove_op(st, *at) {
            out.push((s, Some(*at)));
        }
    }
    // whole (possibly non-empty) blocks
    for (i, op) in st.ops.iter().enumerate().rev().take(8) {
        if matches!(op, Op::Randomized(_)) {
            if let Some(s) = remove_ops(st, &[(i, None)]) {
                out.push((s, Some((i, None))));
            }
        }
    }
    // context
    if !st.pre.is_empty() {
        let mut s = st.clone();
        s.pre.clear();
        out.push((s, None));
    }
    if st.tlabel != 0 {
        let mut s = st.clone();
        s.tlabel = 0;
        out.push((s, None));
    }
    if st.bases != Bases::Default {
        let mut s = st.clone();
        s.bases = Bases::Default;
        out.push((s, None));
    }
    // simplify single ops (only worth it once the program is small)
    if exec_order(st).len() <= 40 {
        for at in exec_order(st) {
            for nv in op_variants(get_op(st, at)).into_iter().take(6) {
                let mut s = st.clone();
                match at.1 {
                    None => s.ops[at.0] = nv,
                    Some(j) => {
                        if let Op::Randomized(b) = &mut s.ops[at.0] {
                            b[j] = nv;
                        }
                    }
                }
                if valid_statement(&s) {
                    out.push((s, None));
                }
                if out.len() > 250 {
                    return out;
                }
            }
        }
    }
    out
}

/// Where does position `at` end up after `removed` was deleted?
pub fn follow_at(at: At, removed: At) -> Option<At> {
    match (at, removed) {
        (a, r) if a == r => None,
        ((i, j), (ri, None)) => {
            if i == ri {
                None
            } else if i > ri {
                Some((i - 1, j))
            } else {
                Some((i, j))
            }
        }
        ((i, Some(j)), (ri, Some(rj))) if i == ri => {
            if j > rj {
                Some((i, Some(j - 1)))
            } else {
                Some((i, Some(j)))
            }
        }
        (a, _) => Some(a),
    }
}

/// Bounded greedy minimisation.  `fails(candidate)` must return true iff the
/// same oracle still fails.
pub fn minimise(
    case: Value,
    shrink: &dyn Fn(&Value) -> Vec<Value>,
    fails: &dyn Fn(&Value) -> bool,
    budget: usize,
) -> (Value, usize) {
    let mut cur = case;
    let mut used = 0usize;
    let t0 = std::time::Instant::now();
    'outer: loop {
        for cand in shrink(&cur) {
            // bounded in re-executions and in wall-clock (a harness backstop)
            if used >= budget || t0.elapsed().as_secs() > 30 {
                break 'outer;
            }
            used += 1;
            if fails(&cand) {
                cur = cand;
                continue 'outer;
            }
        }
        break;
    }
    (cur, used)
}
