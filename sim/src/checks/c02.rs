//! C02 soundness against invalid witnesses — fault in prover memory (F10).
use super::*;
use crate::faults::{self, WFault};
use ark_bulletproofs::r1cs::R1CSProof;
use crate::with_curve;
use serde_json::json;

#[derive(Clone, Debug, Serialize, Deserialize)]
pub struct Case {
    pub base: SessionCase,
    pub fault: WFault,
}

pub fn run_case<G: AffineRepr>(run: u64, case: &Case, st: &mut Stats) {
    st.eval();
    let (n1, n2, _, _) = shape_of(&case.base.st);
    let Some(fst) = faults::apply(&case.base.st, &case.fault, n1) else {
        st.probe("fault-did-not-fit");
        return;
    };
    let mut fc = case.base.clone();
    fc.st = fst;
    let fail = |st: &mut Stats, oracle: &str, detail: String| {
        st.violate(Violation {
            run,
            oracle: oracle.into(),
            signature: format!("{}:{}:{}", oracle, case.fault.kind(), case.base.st.curve.name()),
            detail,
            case: to_value(case),
        });
    };
    let (pr, _out) = match prove_case::<G>(&fc, false) {
        Ok(x) => x,
        Err(e) => {
            // the prover does not check constraints: it must still emit a proof
            fail(st, "prove-emits-proof", format!("{} (fault {:?})", e, case.fault));
            return;
        }
    };
    st.steps += pr.steps + 1;
    st.fault(case.fault.kind());
    let v = deliver::<G>(&fc.st, &pr.commitments, &pr.bytes, &case.base.cap_v);
    st.steps += 1;
    let phase = match &case.fault {
        WFault::GateOut { gate, .. } | WFault::GateLeft { gate, .. } | WFault::GateRight { gate, .. } => {
            if *gate < n1 { "p1" } else { "p2" }
        }
        WFault::ConstantPair { .. } => "p1",
        WFault::WireValue { at, .. } | WFault::Constant { at, .. } => {
            if at.1.is_some() { "p2" } else { "p1" }
        }
        _ => "p1",
    };
    if v.panicked {
        fail(st, "no-panic", v.text.clone());
        return;
    }
    if !pr.satisfied {
        st.probe(&format!("cell:{}:{}:unsatisfied", case.fault.kind(), phase));
        if v.accepted {
            fail(
                st,
                "unsatisfied-rejected",
                format!(
                    "assignment violates {} (n1={}, n2={}) yet the emitted proof was ACCEPTED; fault {:?}",
                    pr.first_violation.clone().unwrap_or_default(),
                    n1,
                    n2,
                    case.fault
                ),
            );
            return;
        }
        st.distinct(&format!(
            "{}|{}|{}|{}|{}",
            case.base.st.curve.name(),
            case.base.st.shape(),
            case.fault.kind(),
            phase,
            pr.first_violation.clone().unwrap_or_default()
        ));
    } else {
        // the touched wire was unconstrained: still a satisfying assignment
        st.probe(&format!("cell:{}:{}:still-satisfied", case.fault.kind(), phase));
        if !v.accepted {
            fail(
                st,
                "still-satisfied-accepted",
                format!("fault left the assignment satisfying, yet rejected: {}", v.text),
            );
            return;
        }
    }
    // the same demand through batch verification: alone, and (for constant
    // faults) paired with the complementary error -d, whose residual would
    // cancel under equal batch weights
    if !pr.satisfied && run % 2 == 0 {
        use ark_bulletproofs::r1cs::batch_verify;
        use merlin::Transcript;
        type F<G> = <G as AffineRepr>::ScalarField;
        let mut members: Vec<(Statement, Vec<G>, R1CSProof<G>)> = vec![];
        if let Ok(p) = R1CSProof::<G>::from_bytes(&pr.bytes) {
            members.push((fc.st.clone(), pr.commitments.clone(), p));
        }
        if let WFault::Constant { at, d } = &case.fault {
            let nd = S::of(&(-d.f::<F<G>>()));
            if let Some(st2) = faults::apply(&case.base.st, &WFault::Constant { at: *at, d: nd }, n1) {
                let mut c2 = case.base.clone();
                c2.st = st2;
                if let Ok((pr2, _)) = prove_case::<G>(&c2, false) {
                    if let Ok(p2) = R1CSProof::<G>::from_bytes(&pr2.bytes) {
                        if !pr2.satisfied {
                            members.push((c2.st.clone(), pr2.commitments.clone(), p2));
                            st.probe("batch-pair-with-complementary-error");
                        }
                    }
                }
            }
        }
        let bp = gens_with_history::<G>(&case.base.cap_v, 1);
        let pc = pc_gens_for::<G>(&fc.st.bases);
        let mut ts: Vec<Transcript> = members.iter().map(|m| Transcript::new(TLABELS[m.0.tlabel])).collect();
        let mut brng = CountingRng::new(case.base.ext_seed ^ 0xb47c, RngMode::Normal);
        let r = catch(|| {
            let mut inst = vec![];
            for (m, t) in members.iter().zip(ts.iter_mut()) {
                let (v, _) = build_verifier::<G>(&m.0, &m.1, t);
                inst.push((v, &m.2));
            }
            batch_verify(&mut brng, inst, &pc, &bp)
        });
        st.steps += 1;
        match r {
            Err(m) => {
                fail(st, "no-panic", format!("batch_verify panicked: {}", m));
                return;
            }
            Ok(Ok(())) if !members.is_empty() => {
                fail(
                    st,
                    "unsatisfied-rejected-in-batch",
                    format!("a batch of {} proofs emitted for violated constraints (errors +d / -d on the same constant) was ACCEPTED by batch_verify; fault {:?}", members.len(), case.fault),
                );
                return;
            }
            _ => st.probe("batch-leg-rejected"),
        }
    }
    st.log_digest(run, &pr.bytes);
    st.sample(
        run,
        json!({"curve": case.base.st.curve.name(), "shape": case.base.st.shape(), "fault": case.fault,
               "model_says": if pr.satisfied {"still satisfied"} else {"unsatisfied"}, "first_violation": pr.first_violation, "verdict": v.text}),
    );
}

pub fn case_for(seed: u64, tier: Tier, run: u64) -> Option<Case> {
    let curve = CURVES[(run % 3) as usize];
    let mut rng = sub_rng(seed, "C02", run, "case");
    let kn = tier.pick(gen::Knobs::quick(), gen::Knobs::thorough());
    for _ in 0..20 {
        let base = gen_session_case(&mut rng, curve, &kn);
        let (n1, n2, _, _) = shape_of(&base.st);
        if let Some(fault) = faults::gen_fault(&mut rng, &base.st, n1, n2) {
            return Some(Case { base, fault });
        }
    }
    None
}

pub fn run(ctx: &Ctx) -> i32 {
    let n = scaled(ctx.tier.pick(9000, 200000));
    let stats = par_run(n, ctx.workers, |i, st| {
        if let Some(case) = case_for(ctx.seed, ctx.tier, i) {
            with_curve!(case.base.st.curve, G, run_case::<G>(i, &case, st));
        }
    });
    finish(
        ctx,
        stats,
        Report {
            level: "exploration",
            rule: "a C01 session with exactly one F10 fault (wire value, committed value, gate triple via hook, public constant) in phase 1 or 2 at a drawn position; expectation from the model re-evaluated after the fault (two-sided); non-trivial when the model says unsatisfied and a proof was emitted; distinct by (curve, op sequence, fault kind, phase, violated item)".into(),
            exhaustive: false,
            assumptions: base_assumptions(),
            real_components: REAL.to_vec(),
            simulated_components: vec!["program generator", "RefCS (satisfaction oracle after fault)", "prover-memory fault injector (guarded hook verif_overwrite_gate)", "byte channel"],
            extra: json!({}),
        },
    )
}

pub fn replay(case: &Value) -> Vec<Violation> {
    let case: Case = serde_json::from_value(case.clone()).expect("case json");
    let mut st = Stats::default();
    with_curve!(case.base.st.curve, G, run_case::<G>(0, &case, &mut st));
    st.violations
}

pub fn shrink(case: &Value) -> Vec<Value> {
    let Ok(c) = serde_json::from_value::<Case>(case.clone()) else { return vec![] };
    let mut out = vec![];
    for (b, removed) in shrink_session(&c.base) {
        if let Some(f) = shrink_wfault(&c.fault, removed) {
            out.push(to_value(&Case { base: b, fault: f }));
        }
    }
    out
}
