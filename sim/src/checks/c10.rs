//! C10 inner-product argument — sub-protocol sessions with their own reference.
use super::*;
use crate::codec::{dec_point, dec_scalar, enc_point, enc_scalar, point_size};
use crate::refipp::{self, RefIpp};
use crate::refsession::{RefTranscript, SOp};
use crate::with_curve;
use ark_bulletproofs::verif_hooks::InnerProductProof;
use ark_ec::CurveGroup;
use ark_serialize::{CanonicalDeserialize, CanonicalSerialize};
use ark_std::{One, UniformRand, Zero};
use merlin::Transcript;
use serde_json::json;

#[derive(Clone, Debug, PartialEq, Serialize, Deserialize)]
pub enum IppTamper {
    None,
    /// P + d*Q: the claimed inner product is off by d
    WrongProduct(S),
    /// P + d*G_0
    WrongPInG(S),
    ScalarA(S),
    ScalarB(S),
    RoundNegL(usize),
    RoundSwapLR(usize),
    RoundReplace(usize, u64),
    RoundIdentity(usize),
    DropRound,
    AddRound(u64),
    /// verify with factor i changed
    GFactor(usize, S),
    HFactor(usize, S),
    /// claimed length n*2 or n/2 with the rounds unchanged
    ClaimedDouble,
    ClaimedHalf,
    /// unequal list lengths
    DropOnlyR,
    DropOnlyL,
    /// a surplus point in one list only (all other entries untouched)
    AddOnlyR(u64),
    AddOnlyL(u64),
}

#[derive(Clone, Debug, Serialize, Deserialize)]
pub struct Case {
    pub curve: Curve,
    pub k: usize,
    pub vec_kind: u8,
    pub fac_kind: u8,
    pub seed: u64,
    pub tampers: Vec<IppTamper>,
}

fn ser<G: AffineRepr>(p: &InnerProductProof<G>) -> Vec<u8> {
    let mut b = vec![];
    p.serialize_compressed(&mut b).unwrap();
    b
}

fn parse_ipp<G: AffineRepr>(b: &[u8]) -> Option<RefIpp<G>> {
    let ps = point_size::<G>();
    let mut off = 0;
    let mut lists = vec![];
    for _ in 0..2 {
        let mut c = [0u8; 8];
        c.copy_from_slice(b.get(off..off + 8)?);
        off += 8;
        let n = u64::from_le_bytes(c) as usize;
        let mut v = vec![];
        for _ in 0..n {
            v.push(dec_point::<G>(b.get(off..off + ps)?).ok()?);
            off += ps;
        }
        lists.push(v);
    }
    let a = dec_scalar(b.get(off..off + 32)?).ok()?;
    let bb = dec_scalar(b.get(off + 32..off + 64)?).ok()?;
    let r = lists.pop()?;
    let l = lists.pop()?;
    Some(RefIpp { l, r, a, b: bb })
}

fn enc_ipp<G: AffineRepr>(p: &RefIpp<G>) -> Vec<u8> {
    let mut v = vec![];
    v.extend((p.l.len() as u64).to_le_bytes());
    for x in &p.l {
        v.extend(enc_point(x));
    }
    v.extend((p.r.len() as u64).to_le_bytes());
    for x in &p.r {
        v.extend(enc_point(x));
    }
    v.extend(enc_scalar(&p.a));
    v.extend(enc_scalar(&p.b));
    v
}

fn gen_vec<F: PrimeField>(rng: &mut Rng, n: usize, kind: u8) -> Vec<F> {
    (0..n)
        .map(|i| match kind {
            0 => F::rand(rng),
            1 => {
                if chance(rng, 1, 4) { F::rand(rng) } else { F::zero() }
            }
            2 => {
                if i < n / 2 { F::zero() } else { F::rand(rng) }
            }
            3 => F::from((rand_core::RngCore::next_u32(rng) % 2) as u64),
            4 => {
                if i == n - 1 { F::rand(rng) } else { F::zero() }
            }
            5 => F::zero(),
            _ => gen_scalar(rng).f(),
        })
        .collect()
}

pub fn run_case<G: AffineRepr>(run: u64, case: &Case, st: &mut Stats) {
    type F<G> = <G as AffineRepr>::ScalarField;
    let n = 1usize << case.k;
    let mut rng = rng_from_u64(case.seed, "c10");
    let g: Vec<G> = crate::refgens::ref_chain_cached::<G>(b'G', 0, n)[..n].to_vec();
    let h: Vec<G> = crate::refgens::ref_chain_cached::<G>(b'H', 0, n)[..n].to_vec();
    let q = G::rand(&mut rng);
    let a: Vec<F<G>> = gen_vec(&mut rng, n, case.vec_kind % 7);
    let b: Vec<F<G>> = gen_vec(&mut rng, n, (case.vec_kind / 7) % 7);
    let y = F::<G>::rand(&mut rng);
    let mk_f = |kind: u8, rng: &mut Rng| -> Vec<F<G>> {
        match kind {
            0 => vec![F::<G>::one(); n],
            1 => {
                let mut v = vec![];
                let mut c = F::<G>::one();
                for _ in 0..n {
                    v.push(c);
                    c *= y;
                }
                v
            }
            2 => (0..n).map(|i| if i < n / 2 { F::<G>::one() } else { y }).collect(),
            // ones and non-ones in every arrangement (the R1CS prover only ever passes ones
            // followed by u; the property quantifies over all non-zero factor vectors)
            4 => (0..n).map(|i| if i < n / 2 { y } else { F::<G>::one() }).collect(),
            5 => {
                let at = below(rng, n);
                (0..n).map(|i| if i == at { y } else { F::<G>::one() }).collect()
            }
            6 => (0..n).map(|_| if chance(rng, 1, 2) { F::<G>::one() } else { y }).collect(),
            7 => {
                let at = below(rng, n + 1);
                let sm = [F::<G>::one(), -F::<G>::one(), F::<G>::from(2u64), y];
                (0..n).map(|i| if i < at { sm[below(rng, 4)] } else { sm[below(rng, 2)] }).collect()
            }
            _ => (0..n).map(|_| loop { let x = F::<G>::rand(rng); if !x.is_zero() { break x } }).collect(),
        }
    };
    let gf = mk_f(case.fac_kind % 8, &mut rng);
    let hf = mk_f((case.fac_kind / 8) % 8, &mut rng);
    let viol = |st: &mut Stats, oracle: &str, t: &IppTamper, detail: String| {
        let mut c = case.clone();
        c.tampers = vec![t.clone()];
        st.violate(Violation { run, oracle: oracle.into(), signature: format!("{}:{:?}", oracle, std::mem::discriminant(t)), detail, case: to_value(&c) });
    };
    // real create, recorded
    merlin::sim::start_recording();
    let mut t = Transcript::new(b"ipp-session");
    let tid = t.sim_id();
    let created = catch(|| InnerProductProof::<G>::create(&mut t, &q, &gf, &hf, g.clone(), h.clone(), a.clone(), b.clone()));
    let log = merlin::sim::stop_recording();
    st.eval();
    st.steps += 1;
    let proof = match created {
        Ok(p) => p,
        Err(m) => {
            viol(st, "create-no-panic", &IppTamper::None, format!("create panicked: {}", m));
            return;
        }
    };
    let pb = ser(&proof);
    let Some(real) = parse_ipp::<G>(&pb) else {
        viol(st, "ipp-layout", &IppTamper::None, "cannot parse the created proof".into());
        return;
    };
    // reference prover: same rounds, same L/R/a/b, same transcript history
    let mut rt = RefTranscript::new(b"ipp-session");
    let refp = refipp::prove::<G>(&mut rt, &q, &gf, &hf, &g, &h, &a, &b);
    if real.l.len() != case.k || real.r.len() != case.k {
        viol(st, "exactly-k-rounds", &IppTamper::None, format!("n = 2^{}: proof has {} / {} rounds", case.k, real.l.len(), real.r.len()));
        return;
    }
    if real != refp {
        viol(st, "create-equals-reference-folding", &IppTamper::None, format!("created proof differs from explicit folding (k={}, vec kinds {}, factor kinds {})", case.k, case.vec_kind, case.fac_kind));
        return;
    }
    let p_ops = main_ops(&log, tid);
    if p_ops != rt.sched {
        let i = p_ops.iter().zip(rt.sched.iter()).position(|(x, y)| x != y).unwrap_or(std::cmp::min(p_ops.len(), rt.sched.len()));
        viol(st, "ipp-transcript-history", &IppTamper::None, format!("create's transcript history deviates from the schedule at op #{}: {:?} vs {:?}", i, p_ops.get(i).map(SOp::brief), rt.sched.get(i).map(SOp::brief)));
        return;
    }
    let p_true = refipp::commitment::<G>(&q, &gf, &hf, &g, &h, &a, &b).into_affine();
    let degenerate = refp.l.iter().chain(refp.r.iter()).any(|x| x.is_zero());
    if degenerate {
        st.probe("degenerate-identity-cross-term");
    }
    for tm in &case.tampers {
        st.eval();
        st.steps += 1;
        let mut pf = real.clone();
        let mut p = p_true;
        let (mut gf2, mut hf2) = (gf.clone(), hf.clone());
        let mut claimed = n;
        let fit = match tm {
            IppTamper::None => true,
            IppTamper::WrongProduct(d) => {
                p = (p.into_group() + q.into_group() * d.f::<F<G>>()).into_affine();
                true
            }
            IppTamper::WrongPInG(d) => {
                p = (p.into_group() + g[0].into_group() * d.f::<F<G>>()).into_affine();
                true
            }
            IppTamper::ScalarA(d) => {
                pf.a += d.f::<F<G>>();
                true
            }
            IppTamper::ScalarB(d) => {
                pf.b += d.f::<F<G>>();
                true
            }
            IppTamper::RoundNegL(j) if *j < case.k => {
                pf.l[*j] = (-pf.l[*j].into_group()).into_affine();
                !real.l[*j].is_zero()
            }
            IppTamper::RoundSwapLR(j) if *j < case.k => {
                let (x, y) = (pf.l[*j], pf.r[*j]);
                pf.l[*j] = y;
                pf.r[*j] = x;
                x != y
            }
            IppTamper::RoundReplace(j, s) if *j < case.k => {
                pf.r[*j] = G::rand(&mut rng_from_u64(*s, "ipp-r"));
                true
            }
            IppTamper::RoundIdentity(j) if *j < case.k => {
                pf.l[*j] = G::zero();
                true
            }
            IppTamper::DropRound if case.k > 0 => {
                pf.l.pop();
                pf.r.pop();
                true
            }
            IppTamper::AddRound(s) => {
                let mut r = rng_from_u64(*s, "ipp-add");
                pf.l.push(G::rand(&mut r));
                pf.r.push(G::rand(&mut r));
                true
            }
            IppTamper::GFactor(i, d) if *i < n => {
                gf2[*i] += d.f::<F<G>>();
                // only a changed G' matters when a_i != 0 -- the reference decides
                true
            }
            IppTamper::HFactor(i, d) if *i < n => {
                hf2[*i] += d.f::<F<G>>();
                true
            }
            IppTamper::ClaimedDouble => {
                claimed = n * 2;
                true
            }
            IppTamper::ClaimedHalf if n > 1 => {
                claimed = n / 2;
                true
            }
            IppTamper::DropOnlyR if case.k > 0 => {
                pf.r.pop();
                true
            }
            IppTamper::DropOnlyL if case.k > 0 => {
                pf.l.pop();
                true
            }
            IppTamper::AddOnlyR(seed) => {
                let mut r = rng_from_u64(*seed, "ipp-surplus");
                pf.r.push(G::rand(&mut r));
                true
            }
            IppTamper::AddOnlyL(seed) => {
                let mut r = rng_from_u64(*seed, "ipp-surplus");
                pf.l.push(G::rand(&mut r));
                true
            }
            _ => false,
        };
        if !fit {
            continue;
        }
        st.fault(match tm { IppTamper::None => "none", _ => "F4/F5-ipp-tamper" });
        // generator slices follow the claimed length (the caller provides n generators)
        let (gs, hs, gfs, hfs): (Vec<G>, Vec<G>, Vec<F<G>>, Vec<F<G>>) = if claimed <= n {
            (g[..claimed].to_vec(), h[..claimed].to_vec(), gf2[..claimed].to_vec(), hf2[..claimed].to_vec())
        } else {
            let g2 = crate::refgens::ref_chain_cached::<G>(b'G', 0, claimed)[..claimed].to_vec();
            let h2 = crate::refgens::ref_chain_cached::<G>(b'H', 0, claimed)[..claimed].to_vec();
            let mut a2 = gf2.clone();
            a2.resize(claimed, F::<G>::one());
            let mut b2 = hf2.clone();
            b2.resize(claimed, F::<G>::one());
            (g2, h2, a2, b2)
        };
        let mut rt2 = RefTranscript::new(b"ipp-session");
        let want = refipp::verify::<G>(&mut rt2, claimed, &pf, &p, &q, &gfs, &hfs, &gs, &hs);
        let Ok(obj) = InnerProductProof::<G>::deserialize_compressed(&enc_ipp(&pf)[..]) else {
            st.probe("tampered-ipp-did-not-decode");
            continue;
        };
        let mut tv = Transcript::new(b"ipp-session");
        let got = catch(|| obj.verify(claimed, &mut tv, gfs.iter(), hfs.iter(), &p, &q, &gs, &hs));
        match got {
            Err(m) => {
                viol(st, "verify-no-panic", tm, format!("{:?}: verify panicked: {}", tm, m));
            }
            Ok(r) => {
                if r.is_ok() != want {
                    viol(st, "verdict-equals-explicit-folding", tm, format!("{:?} (k={}, degenerate={}): real {} vs explicit folding {}", tm, case.k, degenerate, r.is_ok(), want));
                    continue;
                }
                if matches!(tm, IppTamper::None) && !degenerate && !want {
                    viol(st, "honest-ipp-accepted", tm, "non-degenerate honest instance rejected by both".into());
                    continue;
                }
                st.probe(if want { "agree-accept" } else { "agree-reject" });
                st.distinct(&format!("{}|{}|{}|{}|{:?}|{}", case.curve.name(), case.k, case.vec_kind, case.fac_kind, std::mem::discriminant(tm), want));
            }
        }
    }
    st.log_digest(run, &pb);
    st.sample(run, json!({"curve": case.curve.name(), "k": case.k, "vector_kinds": [case.vec_kind % 7, (case.vec_kind / 7) % 7], "factor_kinds": [case.fac_kind % 8, (case.fac_kind / 8) % 8], "degenerate": degenerate, "tampers": case.tampers}));
}

pub fn case_for(seed: u64, tier: Tier, run: u64) -> Case {
    use rand_core::RngCore;
    let curve = CURVES[(run % 3) as usize];
    let mut rng = sub_rng(seed, "C10", run, "case");
    let kmax = tier.pick(5usize, 7);
    // beyond the property's k <= 7: a few long arguments (9-10 rounds) so that
    // any code path that only engages for wide rounds is exercised
    if run % tier.pick(400u64, 250) == 123 {
        use rand_core::RngCore;
        let mut rng = sub_rng(seed, "C10", run, "long");
        let k = 8 + below(&mut rng, tier.pick(2, 3));
        return Case { curve: CURVES[(run % 3) as usize], k, vec_kind: (rng.next_u32() % 49) as u8, fac_kind: (rng.next_u32() % 64) as u8, seed: rng.next_u64(), tampers: vec![IppTamper::None, IppTamper::WrongProduct(S::U(1))] };
    }
    // small k more often; every k regularly
    let k = if run < 3 * (kmax as u64 + 1) { (run / 3) as usize } else { std::cmp::min(below(&mut rng, kmax + 1), below(&mut rng, kmax + 2)) };
    let k = std::cmp::min(k, kmax);
    let n = 1usize << k;
    let vec_kind = (rng.next_u32() % 49) as u8;
    let fac_kind = (rng.next_u32() % 64) as u8;
    let d = || S::U(1);
    let mut all = vec![
        IppTamper::None,
        IppTamper::WrongProduct(d()),
        IppTamper::WrongProduct(gen_scalar_nonzero::<ark_secq256k1::Fr>(&mut rng)),
        IppTamper::WrongPInG(d()),
        IppTamper::ScalarA(d()),
        IppTamper::ScalarB(S::N(1)),
        IppTamper::AddRound(rng.next_u64()),
        IppTamper::ClaimedDouble,
        IppTamper::ClaimedHalf,
        IppTamper::DropRound,
        IppTamper::DropOnlyR,
        IppTamper::DropOnlyL,
        IppTamper::AddOnlyR(rng.next_u64()),
        IppTamper::AddOnlyL(rng.next_u64()),
        IppTamper::GFactor(below(&mut rng, n), d()),
        IppTamper::HFactor(below(&mut rng, n), d()),
    ];
    if k > 0 {
        let j = below(&mut rng, k);
        all.push(IppTamper::RoundNegL(j));
        all.push(IppTamper::RoundSwapLR(j));
        all.push(IppTamper::RoundReplace(j, rng.next_u64()));
        all.push(IppTamper::RoundIdentity(j));
    }
    let mut tampers = vec![IppTamper::None];
    for _ in 0..5 {
        tampers.push(pick(&mut rng, &all).clone());
    }
    Case { curve, k, vec_kind, fac_kind, seed: rng.next_u64(), tampers }
}

pub fn run(ctx: &Ctx) -> i32 {
    let n = scaled(ctx.tier.pick(2500, 40_000));
    let stats = par_run(n, ctx.workers, |i, st| {
        let case = case_for(ctx.seed, ctx.tier, i);
        with_curve!(case.curve, G, run_case::<G>(i, &case, st));
    });
    finish(
        ctx,
        stats,
        Report {
            level: "exploration",
            rule: "inner-product sessions through the guarded re-export: k in 0..=kmax, vectors from {dense, sparse, zero half, 0/1, single non-zero, all zero, special values}, factors from {ones, powers of a challenge, 1|y split, y|1 split, single non-one among ones, random mix of ones and y, small special values (1, -1, 2, y) mixed, uniform non-zero}, random Q, three curves. The created proof must EQUAL the reference prover's (explicit folding) in every round and final scalar, have exactly k rounds, and produce the scheduled transcript history; then each tampered variant (wrong product, wrong P, a/b altered, round negated/swapped/replaced/identity/dropped/added, factor altered, claimed n doubled/halved, unequal lists: a point missing from / surplus in one list only) is judged by real verify and by the reference verifier; verdicts must coincide (degenerate identity cross terms are rejected by design by both). distinct by (curve, k, vector kinds, factor kinds, tamper kind, verdict)".into(),
            exhaustive: false,
            assumptions: base_assumptions(),
            real_components: REAL.to_vec(),
            simulated_components: vec!["RefIpp prover/verifier (explicit folding model)", "tamper catalogue", "Merlin recorder"],
            extra: json!({}),
        },
    )
}

pub fn replay(case: &Value) -> Vec<Violation> {
    let case: Case = serde_json::from_value(case.clone()).expect("case json");
    let mut st = Stats::default();
    with_curve!(case.curve, G, run_case::<G>(0, &case, &mut st));
    st.violations
}

pub fn shrink(case: &Value) -> Vec<Value> {
    let Ok(c) = serde_json::from_value::<Case>(case.clone()) else { return vec![] };
    let mut out = vec![];
    for k in 0..c.k {
        let mut d = c.clone();
        d.k = k;
        out.push(to_value(&d));
    }
    if c.vec_kind != 0 {
        let mut d = c.clone();
        d.vec_kind = 0;
        out.push(to_value(&d));
    }
    if c.fac_kind != 0 {
        let mut d = c.clone();
        d.fac_kind = 0;
        out.push(to_value(&d));
    }
    out
}
