//! C01 completeness — the fault-free configuration of the simulator.
use super::*;
use crate::with_curve;
use crate::session::*;
use ark_bulletproofs::r1cs::R1CSProof;
use serde_json::json;

pub fn run_case<G: AffineRepr>(run: u64, case: &SessionCase, st: &mut Stats) {
    st.eval();
    let bp_p = gens_with_history::<G>(&case.cap_p, parties_for(&case.cap_p));
    let out = run_prover::<G>(
        &case.st,
        &bp_p,
        &ProverCfg {
            ext_seed: case.ext_seed,
            ext_mode: RngMode::Normal,
            record: false,
        },
    );
    let sh = out.shared.borrow();
    st.steps += sh.steps as u64;
    for (k, v) in &sh.model.probes {
        st.probe_n(k, *v);
    }
    let (n1, n2) = (sh.model.n1(), sh.model.n2());
    let n = n1 + n2;
    if n == 0 {
        st.probe("zero-gates");
    }
    if n == 1 {
        st.probe("one-gate");
    }
    if n > 1 && n.is_power_of_two() {
        st.probe("gates-power-of-two");
    }
    if n > 2 && (n - 1).is_power_of_two() {
        st.probe("gates-one-past-power-of-two");
    }
    if n > 2 && (n + 1).is_power_of_two() {
        st.probe("gates-one-short-of-power-of-two");
    }
    if n1 == 0 && n2 > 0 {
        st.probe("gates-only-in-phase2");
    }
    if case.st.ops.iter().any(|o| matches!(o, Op::Randomized(_))) && n2 == 0 {
        st.probe("phase2-present-gate-free");
    }
    if *case.cap_p.iter().max().unwrap() == sh.model.padded() {
        st.probe("prover-capacity-at-threshold");
    }
    if *case.cap_v.iter().max().unwrap() == sh.model.padded() {
        st.probe("verifier-capacity-at-threshold");
    }
    if !matches!(case.st.bases, Bases::Default) {
        st.probe("non-default-bases");
    }
    let fail = |st: &mut Stats, oracle: &str, detail: String| {
        st.violate(Violation {
            run,
            oracle: oracle.into(),
            signature: format!("{}:{}", oracle, case.st.curve.name()),
            detail,
            case: to_value(case),
        });
    };
    if let Some(d) = &sh.diverged {
        fail(st, "prover-handles-vs-model", d.clone());
        return;
    }
    if !sh.model.satisfied() {
        // generator slip, not a verdict about the code: no demand from C01
        st.probe("generated-unsatisfied(skipped)");
        return;
    }
    let proof = match &out.result {
        Ok(p) => p,
        Err(Ok(e)) => {
            fail(st, "prove-ok", format!("satisfying assignment, capacity sufficient, but prove returned {:?}", e));
            return;
        }
        Err(Err(m)) => {
            fail(st, "prove-ok", format!("prove panicked: {}", m));
            return;
        }
    };
    // the proof crosses the channel as bytes
    let bytes = proof_bytes(proof);
    let decoded = match R1CSProof::<G>::from_bytes(&bytes) {
        Ok(p) => p,
        Err(e) => {
            fail(st, "decode-ok", format!("honest proof does not decode: {:?}", e));
            return;
        }
    };
    let bp_v = gens_with_history::<G>(&case.cap_v, parties_for(&case.cap_v));
    let v = run_verifier::<G>(&case.st, &out.commitments, &decoded, &bp_v, false);
    let vs = v.shared.borrow();
    st.steps += vs.steps as u64 + 1;
    if let Some(d) = &vs.diverged {
        fail(st, "verifier-handles-vs-model", d.clone());
        return;
    }
    if !v.accepted() {
        fail(
            st,
            "verify-ok",
            format!(
                "satisfied system (n1={}, n2={}, m={}) rejected: {}",
                n1,
                n2,
                sh.model.m,
                v.describe()
            ),
        );
        return;
    }
    st.distinct(&format!(
        "{}|{}|{}|{}|{}",
        case.st.curve.name(),
        case.st.shape(),
        n1,
        n2,
        sh.model.m
    ));
    st.log_digest(run, &bytes);
    st.sample(run, sample_of(case));
}

fn cases(ctx: &Ctx) -> u64 {
    scaled(ctx.tier.pick(12000, 200000))
}

pub fn case_for(ctx_seed: u64, tier: Tier, run: u64) -> SessionCase {
    let curve = CURVES[(run % 3) as usize];
    // scripted corners first
    let scripted_n = gen::scripted(Curve::Secq).len() as u64 * 3;
    if run < scripted_n {
        let s = gen::scripted(curve);
        let (_, st) = s[(run / 3) as usize].clone();
        let (_, _, _, padded) = shape_of(&st);
        return SessionCase {
            st,
            cap_p: vec![padded],
            cap_v: vec![padded],
            ext_seed: run,
        };
    }
    let mut rng = sub_rng(ctx_seed, "C01", run, "case");
    let mut kn = tier.pick(gen::Knobs::quick(), gen::Knobs::thorough());
    // a few LARGE circuits (257..700 gates: 9-10 folding rounds)
    let every = tier.pick(1500u64, 3000);
    if run % every == 77 {
        let _ = &mut kn;
        let gates = 257 + below(&mut rng, 400);
        let st = with_curve!(curve, G, gen::gen_large_statement::<<G as AffineRepr>::ScalarField>(&mut rng, curve, gates));
        let (_, _, _, padded) = shape_of(&st);
        return SessionCase { st, cap_p: vec![padded], cap_v: vec![padded], ext_seed: rand_core::RngCore::next_u64(&mut rng) };
    }
    gen_session_case(&mut rng, curve, &kn)
}

/// Schedule leg: two live sessions whose API calls are interleaved by the
/// seeded scheduler must produce exactly the proofs they produce alone.
pub fn run_interleaved<G: AffineRepr>(run: u64, a: &SessionCase, b: &SessionCase, sched_seed: u64, st: &mut Stats) {
    st.eval();
    let solo = |c: &SessionCase| -> Result<Vec<u8>, String> { prove_case::<G>(c, false).map(|(p, _)| p.bytes) };
    let (sa, sb) = (solo(a), solo(b));
    let (bpa, bpb) = (gens_with_history::<G>(&a.cap_p, parties_for(&a.cap_p)), gens_with_history::<G>(&b.cap_p, parties_for(&b.cap_p)));
    let r = run_two_provers_interleaved::<G>((&a.st, &bpa, a.ext_seed), (&b.st, &bpb, b.ext_seed), sched_seed);
    let viol = |st: &mut Stats, detail: String| {
        st.violate(Violation {
            run,
            oracle: "interleaving-independent".into(),
            signature: format!("interleaving:{}", a.st.curve.name()),
            detail,
            case: serde_json::json!({"interleaved": [a, b], "sched_seed": sched_seed}),
        });
    };
    match r {
        Err(m) => viol(st, format!("interleaved sessions panicked: {}", m)),
        Ok((ra, rb, sched)) => {
            st.steps += sched.len() as u64;
            let same = |x: &Result<Vec<u8>, String>, y: &Result<Vec<u8>, String>| match (x, y) {
                (Ok(p), Ok(q)) => p == q,
                (Err(_), Err(_)) => true,
                _ => false,
            };
            if !same(&ra, &sa) || !same(&rb, &sb) {
                viol(st, format!("schedule {}: a session's proof differs from the proof the same session produces alone", sched));
                return;
            }
            st.probe("interleaved-sessions-equal-solo");
            st.distinct(&format!("sched|{}|{}|{}", a.st.shape(), b.st.shape(), sched));
            st.log_digest(run, sched.as_bytes());
        }
    }
}

pub fn run(ctx: &Ctx) -> i32 {
    let n = cases(ctx);
    let stats = par_run(n, ctx.workers, |i, st| {
        let case = case_for(ctx.seed, ctx.tier, i);
        if i % 10 == 9 {
            // schedule leg: this session interleaved with the previous one (same curve: i-3)
            let other = case_for(ctx.seed, ctx.tier, i.saturating_sub(3));
            if other.st.curve == case.st.curve {
                with_curve!(case.st.curve, G, run_interleaved::<G>(i, &case, &other, derive_seed(ctx.seed, "C01", i, "schedule"), st));
                return;
            }
        }
        with_curve!(case.st.curve, G, run_case::<G>(i, &case, st));
    });
    finish(
        ctx,
        stats,
        Report {
            level: "exploration",
            rule: "seeded programs (call histories incl. randomized closures) x curve x independent capacity histories on each side; a case is non-trivial when the model calls the assignment satisfying and a proof was produced and verified; distinct by (curve, op-kind sequence, n1, n2, m)".into(),
            exhaustive: false,
            assumptions: base_assumptions(),
            real_components: REAL.to_vec(),
            simulated_components: vec!["program generator", "RefCS model (satisfaction oracle)", "byte channel (fault-free in this check)", "external RNG (seeded ChaCha)", "seeded scheduler interleaving the API calls of two live sessions (1 in 10 runs)"],
            extra: json!({"fault_free_configuration": true}),
        },
    )
}

pub fn replay(case: &Value) -> Vec<Violation> {
    if let Some(arr) = case.get("interleaved").and_then(|a| a.as_array()) {
        let a: SessionCase = serde_json::from_value(arr[0].clone()).expect("case json");
        let b: SessionCase = serde_json::from_value(arr[1].clone()).expect("case json");
        let mut st = Stats::default();
        with_curve!(a.st.curve, G, run_interleaved::<G>(0, &a, &b, case["sched_seed"].as_u64().unwrap_or(0), &mut st));
        return st.violations;
    }
    let case: SessionCase = serde_json::from_value(case.clone()).expect("case json");
    let mut st = Stats::default();
    with_curve!(case.st.curve, G, run_case::<G>(0, &case, &mut st));
    st.violations
}

pub fn shrink(case: &Value) -> Vec<Value> {
    let Ok(c) = serde_json::from_value::<SessionCase>(case.clone()) else { return vec![] };
    shrink_session(&c).into_iter().map(|(s, _)| to_value(&s)).collect()
}
