//! C06 Fiat-Shamir discipline — recorded Merlin operation histories of both roles.
use super::*;
use crate::refsession::SOp;
use crate::tamper::{self, Tamper};
use crate::with_curve;
use merlin::sim::Op as MOp;
use serde_json::json;

#[derive(Clone, Debug, Serialize, Deserialize)]
pub struct Case {
    pub base: SessionCase,
    /// additionally deliver these tampered copies to recording verifiers
    pub tampers: Vec<Tamper>,
}

fn first_diff(a: &[SOp], b: &[SOp]) -> String {
    for i in 0..std::cmp::max(a.len(), b.len()) {
        match (a.get(i), b.get(i)) {
            (Some(x), Some(y)) if x == y => continue,
            (x, y) => {
                return format!(
                    "op #{}: got {} / expected {}",
                    i,
                    x.map(|o| o.brief()).unwrap_or("<end>".into()),
                    y.map(|o| o.brief()).unwrap_or("<end>".into())
                )
            }
        }
    }
    "equal".into()
}

/// Uncompressed encodings in the schedule must be full-length and decode back.
fn framing_ok<G: AffineRepr>(sched: &[SOp]) -> Result<(), String> {
    use ark_serialize::{CanonicalDeserialize, CanonicalSerialize};
    let plen = G::generator().uncompressed_size();
    let slen = G::ScalarField::from(1u64).uncompressed_size();
    for op in sched {
        if let SOp::Append { label, msg } = op {
            let l = String::from_utf8_lossy(label).to_string();
            let is_pt = matches!(
                l.as_str(),
                "V" | "A_I1" | "A_O1" | "S1" | "A_I2" | "A_O2" | "S2" | "T_1" | "T_3" | "T_4" | "T_5" | "T_6" | "L" | "R"
            );
            let is_sc = matches!(l.as_str(), "t_x" | "t_x_blinding" | "e_blinding");
            if is_pt && msg.len() == plen {
                if G::deserialize_uncompressed(&msg[..]).is_err() {
                    return Err(format!("point under label {} does not decode back", l));
                }
            } else if is_pt && msg.len() != plen {
                // user data may reuse label "V" (LABELS[3]); only protocol points have full length
                if !(l == "V") {
                    return Err(format!("point under label {} has length {} != {}", l, msg.len(), plen));
                }
            }
            if is_sc && msg.len() != slen {
                return Err(format!("scalar under label {} has length {}", l, msg.len()));
            }
            if (l == "m" || l == "n") && msg.len() != 8 {
                // LABELS[7] = "m" can be user data; only flag non-8 when it is the protocol item
            }
        }
    }
    Ok(())
}

pub fn run_case<G: AffineRepr>(run: u64, case: &Case, st: &mut Stats) {
    st.eval();
    let viol = |st: &mut Stats, oracle: &str, detail: String, t: Option<&Tamper>| {
        st.violate(Violation {
            run,
            oracle: oracle.into(),
            signature: format!("{}:{}", oracle, case.base.st.curve.name()),
            detail,
            case: json!({"base": case.base, "tampers": t.map(|x| vec![x.clone()]).unwrap_or_default()}),
        });
    };
    let (pr, out) = match prove_case::<G>(&case.base, true) {
        Ok(x) => x,
        Err(_) => {
            st.probe("no-proof(skipped)");
            return;
        }
    };
    st.steps += pr.steps;
    let p_ops = main_ops(&out.log, out.tid);
    let Some(rf) = ref_verdict::<G>(&case.base.st, &pr.commitments, &pr.bytes) else {
        viol(st, "refcodec", "RefCodec cannot parse an honest proof".into(), None);
        return;
    };
    // 1. prover history == reference schedule (exact labels, bytes, challenge outputs)
    if p_ops != rf.sched {
        viol(
            st,
            "prover-history-equals-schedule",
            format!("prover transcript history deviates from the reference schedule: {}", first_diff(&p_ops, &rf.sched)),
            None,
        );
        return;
    }
    if let Err(e) = framing_ok::<G>(&rf.sched) {
        viol(st, "framing", e, None);
        return;
    }
    // the prover's RNG builder must not have touched the main transcript
    // (appends/challenges on other ids are not in p_ops by construction)
    let proof = R1CSProof::<G>::from_bytes(&pr.bytes).expect("honest proof decodes");
    let bp_v = gens_with_history::<G>(&case.base.cap_v, parties_for(&case.base.cap_v));
    let v = run_verifier::<G>(&case.base.st, &pr.commitments, &proof, &bp_v, true);
    st.steps += v.shared.borrow().steps as u64;
    let v_ops = main_ops(&v.log, v.tid);
    let honest_ok = pr.satisfied;
    if v.panicked() {
        st.probe("real-panicked(C08)");
        return;
    }
    // 2. verifier history == schedule == prover history
    if v_ops != rf.sched {
        viol(
            st,
            "verifier-history-equals-schedule",
            format!("verifier transcript history deviates: {}", first_diff(&v_ops, &rf.sched)),
            None,
        );
        return;
    }
    // the batching weight r is squeezed from a clone, never from the main transcript
    let mut clone_children = vec![];
    for o in &v.log {
        if let MOp::Clone { parent, child } = o {
            if *parent == v.tid {
                clone_children.push(*child);
            }
        }
    }
    let r_on_clone = v.log.iter().any(|o| matches!(o, MOp::Challenge { t, label, .. } if clone_children.contains(t) && label == b"r"));
    let r_on_main = v_ops.iter().any(|o| matches!(o, SOp::Challenge { label, .. } if label == b"r"));
    // ... and that clone must be taken only after the whole proof was absorbed:
    // no main-transcript operation may follow it
    let clone_pos = v.log.iter().position(|o| matches!(o, MOp::Clone { parent, child } if *parent == v.tid && v.log.iter().any(|c| matches!(c, MOp::Challenge { t, label, .. } if t == child && label == b"r"))));
    let last_main = v.log.iter().rposition(|o| matches!(o, MOp::Append { t, .. } | MOp::Challenge { t, .. } if *t == v.tid));
    if let (Some(cp), Some(lm)) = (clone_pos, last_main) {
        if lm > cp {
            viol(st, "r-derived-after-all-messages", format!("the verifier's weight r is squeezed from a clone taken at log position {} but the main transcript absorbs more until position {}: r does not bind the whole proof", cp, lm), None);
            return;
        }
    }
    if r_on_main || !r_on_clone {
        viol(st, "r-from-clone", format!("verifier weight r: on main transcript={}, on a clone={}", r_on_main, r_on_clone), None);
        return;
    }
    // 3. follow-up challenges agree (prover, verifier, reference)
    if honest_ok {
        if !v.accepted() {
            st.probe("honest-rejected(C01)");
        } else {
            let pf = out.followup.clone().unwrap_or_default();
            let vf = v.followup.clone().unwrap_or_default();
            if pf != vf || pf != rf.followup {
                viol(st, "followup-challenges-equal", "transcripts handed back by prover and verifier drive different follow-up challenges".into(), None);
                return;
            }
            st.probe("followup-equal");
        }
    }
    // the same discipline through batch_verify: every member's transcript must
    // go through exactly the scheduled operations (nothing extra squeezed from
    // or absorbed into the caller's live transcript), so that the transcripts
    // the caller keeps drive the same follow-up challenges as the prover's
    if honest_ok && v.accepted() && run % 2 == 0 {
        use ark_bulletproofs::r1cs::batch_verify;
        use merlin::Transcript;
        let pc = pc_gens_for::<G>(&case.base.st.bases);
        merlin::sim::start_recording();
        let mut t1 = Transcript::new(TLABELS[case.base.st.tlabel]);
        let mut t2 = Transcript::new(TLABELS[case.base.st.tlabel]);
        let (id1, id2) = (t1.sim_id(), t2.sim_id());
        let mut brng = CountingRng::new(case.base.ext_seed ^ 0x6a7c, RngMode::Normal);
        let r = catch(|| {
            let (v1, _) = build_verifier::<G>(&case.base.st, &pr.commitments, &mut t1);
            let (v2, _) = build_verifier::<G>(&case.base.st, &pr.commitments, &mut t2);
            batch_verify(&mut brng, vec![(v1, &proof), (v2, &proof)], &pc, &bp_v)
        });
        let blog = merlin::sim::stop_recording();
        match r {
            Err(_) => st.probe("real-panicked(C08)"),
            Ok(res) => {
                if res.is_ok() {
                    for (k, id) in [id1, id2].iter().enumerate() {
                        let ops = main_ops(&blog, *id);
                        if ops != rf.sched {
                            viol(st, "batch-member-history-equals-schedule", format!("batch_verify: the transcript of member {} deviates from the schedule: {}", k, first_diff(&ops, &rf.sched)), None);
                            return;
                        }
                    }
                    let mut f1 = vec![0u8; 32];
                    t1.challenge_bytes(b"bpsim-followup", &mut f1);
                    if Some(&f1) != out.followup.as_ref() {
                        viol(st, "followup-challenges-equal", "after batch_verify the verifier's transcript drives a different follow-up challenge than the prover's".into(), None);
                        return;
                    }
                    st.probe("batch-member-histories-checked");
                } else {
                    st.probe("batch-of-honest-rejected(C07)");
                }
            }
        }
    }
    st.distinct(&format!("{}|{}|{}", case.base.st.curve.name(), case.base.st.shape(), rf.sched.len()));
    let mut dig = vec![];
    for o in &rf.sched {
        dig.extend_from_slice(o.brief().as_bytes());
    }
    st.log_digest(run, &dig);
    st.count("challenges_checked", rf.sched.iter().filter(|o| matches!(o, SOp::Challenge { .. })).count() as u64);
    st.count("appends_checked", rf.sched.iter().filter(|o| matches!(o, SOp::Append { .. })).count() as u64);
    st.sample(run, json!({"curve": case.base.st.curve.name(), "shape": case.base.st.shape(),
        "schedule": rf.sched.iter().map(|o| o.brief()).collect::<Vec<_>>()}));

    // rejected deliveries: the verifier's history must be a prefix of the schedule
    for t in &case.tampers {
        let Some(bytes) = tamper::apply_bytes::<G>(&pr.bytes, t) else { continue };
        let Ok(tp) = R1CSProof::<G>::from_bytes(&bytes) else { continue };
        let Some(trf) = ref_verdict::<G>(&case.base.st, &pr.commitments, &bytes) else { continue };
        st.eval();
        st.fault(t.kind());
        let tv = run_verifier::<G>(&case.base.st, &pr.commitments, &tp, &bp_v, true);
        if tv.panicked() {
            st.probe("real-panicked(C08)");
            continue;
        }
        let t_ops = main_ops(&tv.log, tv.tid);
        let is_prefix = t_ops.len() <= trf.sched.len() && t_ops[..] == trf.sched[..t_ops.len()];
        if !is_prefix {
            viol(st, "rejected-history-prefix-of-schedule", format!("tamper {:?}: {}", t, first_diff(&t_ops, &trf.sched)), Some(t));
            continue;
        }
        if let Some(k) = trf.stop_at {
            if t_ops.len() != k {
                viol(st, "stops-at-failed-validation", format!("tamper {:?}: verifier absorbed {} ops, schedule says the first invalid point is at op {}", t, t_ops.len(), k), Some(t));
                continue;
            }
            st.probe("stopped-at-identity-point");
        } else if trf.shape_ok && t_ops.len() != trf.sched.len() {
            viol(st, "full-history-before-verdict", format!("tamper {:?}: verdict given after {} of {} ops", t, t_ops.len(), trf.sched.len()), Some(t));
            continue;
        }
        st.probe("rejected-delivery-history-checked");
    }
}

pub fn case_for(seed: u64, tier: Tier, run: u64) -> Case {
    let curve = CURVES[(run % 3) as usize];
    let mut rng = sub_rng(seed, "C06", run, "case");
    let kn = tier.pick(gen::Knobs::quick(), gen::Knobs::thorough());
    let base = if run < 3 * gen::scripted(Curve::Secq).len() as u64 {
        c01::case_for(seed, tier, run)
    } else {
        gen_session_case(&mut rng, curve, &kn)
    };
    let (_, _, _, padded) = shape_of(&base.st);
    let cat = tamper::catalogue(padded.trailing_zeros() as usize, &mut rng);
    let tampers = (0..2).map(|_| pick(&mut rng, &cat).clone()).collect();
    Case { base, tampers }
}

pub fn run(ctx: &Ctx) -> i32 {
    let n = scaled(ctx.tier.pick(4000, 120_000));
    let stats = par_run(n, ctx.workers, |i, st| {
        let case = case_for(ctx.seed, ctx.tier, i);
        with_curve!(case.base.st.curve, G, run_case::<G>(i, &case, st));
    });
    finish(
        ctx,
        stats,
        Report {
            level: "exploration",
            rule: "the instrumented Merlin records every operation of both roles; the main-transcript history (labels, absorbed bytes, challenge outputs) of prover and of verifier must EQUAL the reference schedule built by RefSchedule from the statement and the received proof (exact uncompressed encodings, domain separators, V per commit and count m, proof elements before each challenge, IPP dom-sep and n, L/R per round), the verifier weight r must come from a clone, follow-up challenges must agree; for tampered deliveries the verifier history must be a prefix of the schedule that ends at the failed validation. distinct by (curve, op sequence, schedule length)".into(),
            exhaustive: false,
            assumptions: base_assumptions(),
            real_components: REAL.to_vec(),
            simulated_components: vec!["Merlin recorder (additive instrumentation in the vendored crate)", "RefSchedule (model)", "channel adversary for rejected deliveries"],
            extra: json!({}),
        },
    )
}

pub fn replay(case: &Value) -> Vec<Violation> {
    let case: Case = serde_json::from_value(case.clone()).expect("case json");
    let mut st = Stats::default();
    with_curve!(case.base.st.curve, G, run_case::<G>(0, &case, &mut st));
    st.violations
}

pub fn shrink(case: &Value) -> Vec<Value> {
    let Ok(c) = serde_json::from_value::<Case>(case.clone()) else { return vec![] };
    shrink_session(&c.base).into_iter().map(|(b, _)| to_value(&Case { base: b, tampers: c.tampers.clone() })).collect()
}
