//! C08 hostile bytes / proofs never crash or balloon (F13, F5 grid, F1, F14).
use super::*;
use crate::alloc;
use crate::codec::*;
use crate::streams::*;
use crate::with_curve;
use ark_bulletproofs::r1cs::batch_verify;
use ark_ec::CurveGroup;
use ark_serialize::{CanonicalDeserialize, CanonicalSerialize};
use merlin::Transcript;
use rand_core::RngCore;
use serde_json::json;
use std::cell::RefCell;
use std::io::{Seek, SeekFrom, Write};

#[derive(Clone, Copy, Debug, PartialEq, Serialize, Deserialize)]
pub enum Via {
    Verify,
    BatchAlone,
    BatchBeside,
}

#[derive(Clone, Debug, Serialize, Deserialize)]
pub enum Case {
    /// arbitrary bytes: decode under the allocator cap; if it decodes, verify
    Bytes { curve: Curve, hex: String, gates: usize },
    /// structurally arbitrary proof object: list lengths (nl, nr)
    Shape { curve: Curve, n1: usize, n2: usize, nl: usize, nr: usize, via: Via },
    /// identity in a point slot / special value in a scalar slot
    Slot { curve: Curve, n1: usize, n2: usize, pt: Option<usize>, sc: Option<(usize, u8)>, via: Via },
    /// stream faults on deserialize_compressed(reader) / serialize_compressed(writer)
    Stream { curve: Curve, n1: usize, write: bool, fault: StreamFault },
    /// a shape case executed by the companion binary that links /repo WITHOUT the hook feature
    NoHooks { curve: String, gates: usize, nl: usize, nr: usize, via: String },
}

thread_local! {
    static INTENT: RefCell<Option<std::fs::File>> = const { RefCell::new(None) };
}

/// Intent log: the case is written down BEFORE it is executed, so that an
/// abort of the process is attributed to it.
pub fn intent(case: &Case) {
    let Ok(dir) = std::env::var("BPSIM_INTENT_DIR") else { return };
    INTENT.with(|f| {
        let mut f = f.borrow_mut();
        if f.is_none() {
            let p = format!("{}/{:?}.json", dir, std::thread::current().id());
            *f = std::fs::File::create(p).ok();
        }
        if let Some(file) = f.as_mut() {
            let _ = file.seek(SeekFrom::Start(0));
            let _ = file.set_len(0);
            let _ = file.write_all(serde_json::to_string(case).unwrap().as_bytes());
        }
    });
}

pub fn simple_statement(curve: Curve, n1: usize, n2: usize) -> Statement {
    let mut ops = vec![
        Op::Commit { v: S::U(6), r: S::U(13) },
        Op::Constrain(Expr::sub(Expr::V(0), Expr::K(S::U(6)))),
    ];
    for i in 0..n1 {
        ops.push(Op::AllocMul(Some((Val::Lit(S::U(i as u64 + 2)), Val::Lit(S::U(3))))));
    }
    if n2 > 0 {
        let mut b = vec![Op::Challenge { label: 5 }];
        for _ in 0..n2 {
            b.push(Op::Mul(Expr::scale(Expr::V(0), Coef::Chal(S::U(1), vec![0])), Expr::V(0)));
        }
        ops.push(Op::Randomized(b));
    }
    Statement { curve, tlabel: 0, pre: vec![], bases: Bases::Default, ops }
}

fn base_session(curve: Curve, n1: usize, n2: usize) -> SessionCase {
    let st = simple_statement(curve, n1, n2);
    let (_, _, _, padded) = shape_of(&st);
    SessionCase { st, cap_p: vec![padded], cap_v: vec![padded], ext_seed: 99 }
}

/// Verify one hostile proof object through the requested entry point.
/// Returns Err(panic message) if anything panicked.
fn hostile_verify<G: AffineRepr>(
    sc: &SessionCase,
    pr: &Proved<G>,
    hostile: &R1CSProof<G>,
    via: Via,
) -> Result<bool, String> {
    let bp = gens_with_history::<G>(&sc.cap_v, 1);
    match via {
        Via::Verify => {
            let v = run_verifier::<G>(&sc.st, &pr.commitments, hostile, &bp, false);
            match v.verdict {
                Ok(r) => Ok(r.is_ok()),
                Err(m) => Err(m),
            }
        }
        Via::BatchAlone | Via::BatchBeside => {
            let pc = pc_gens_for::<G>(&sc.st.bases);
            let honest = R1CSProof::<G>::from_bytes(&pr.bytes).map_err(|_| "honest proof does not decode".to_string())?;
            let mut t1 = Transcript::new(TLABELS[sc.st.tlabel]);
            let mut t2 = Transcript::new(TLABELS[sc.st.tlabel]);
            let mut rng = CountingRng::new(5, RngMode::Normal);
            catch(|| {
                let mut inst = vec![];
                if via == Via::BatchBeside {
                    let (v, _) = build_verifier::<G>(&sc.st, &pr.commitments, &mut t2);
                    inst.push((v, &honest));
                }
                let (v, _) = build_verifier::<G>(&sc.st, &pr.commitments, &mut t1);
                inst.push((v, hostile));
                batch_verify(&mut rng, inst, &pc, &bp).is_ok()
            })
        }
    }
}

fn kpoint<G: AffineRepr>(k: u64) -> G {
    (G::generator().into_group() * G::ScalarField::from(k + 2)).into_affine()
}

pub fn run_case<G: AffineRepr>(run: u64, case: &Case, st: &mut Stats) {
    intent(case);
    if std::env::var("BPSIM_TEST_ABORT").ok().and_then(|s| s.parse::<u64>().ok()) == Some(run) {
        // selftest of the isolation machinery only
        std::process::abort();
    }
    st.eval();
    st.steps += 1;
    let viol = |st: &mut Stats, oracle: &str, sig: String, detail: String| {
        st.violate(Violation {
            run,
            oracle: oracle.into(),
            signature: sig,
            detail,
            case: to_value(case),
        });
    };
    match case {
        Case::Bytes { curve, hex: h, gates } => {
            let data = unhex(h);
            st.fault("F13-garbage-bytes");
            let (dec, peak) = alloc::measure(1 << 30, || catch(|| R1CSProof::<G>::from_bytes(&data)));
            let bound = 65536 + 64 * data.len();
            if peak > bound {
                viol(st, "memory-proportional-to-input", format!("decode-memory:{}", curve.name()),
                     format!("decoding {} bytes allocated a peak of {} bytes (> {} )", data.len(), peak, bound));
                return;
            }
            st.count("max_decode_peak_bytes_sum", peak as u64);
            match dec {
                Err(m) => {
                    viol(st, "no-panic", format!("from_bytes-panic:{}", curve.name()), format!("from_bytes panicked: {}", m));
                }
                Ok(Err(_)) => st.probe("garbage-rejected-at-decoding"),
                Ok(Ok(p)) => {
                    st.probe("garbage-decoded");
                    let sc = base_session(*curve, *gates, 0);
                    let Ok((pr, _)) = prove_case::<G>(&sc, false) else { return };
                    let nl = ProofFields::<G>::parse(&data).map(|f| (f.l.len(), f.r.len())).unwrap_or((0, 0));
                    for via in [Via::Verify, Via::BatchBeside] {
                        if let Err(m) = hostile_verify::<G>(&sc, &pr, &p, via) {
                            let cls = if nl.0 != nl.1 { "ipp-list-length-mismatch" } else { "decoded-garbage-panic" };
                            viol(st, "no-panic", format!("{}:{:?}", cls, via), format!("verifying decoded garbage (|L|={}, |R|={}) panicked via {:?}: {}", nl.0, nl.1, via, m));
                            return;
                        }
                    }
                    st.distinct(&format!("bytes|{}|{}|{:?}", curve.name(), data.len(), nl));
                }
            }
            st.sample(run, json!({"kind": "bytes", "curve": curve.name(), "len": data.len(), "prefix": &h[..std::cmp::min(32, h.len())]}));
            st.log_digest(run, &data);
        }
        Case::Shape { curve, n1, n2, nl, nr, via } => {
            st.fault("F5-list-lengths");
            let sc = base_session(*curve, *n1, *n2);
            let Ok((pr, _)) = prove_case::<G>(&sc, false) else { return };
            let mut pf = ProofFields::<G>::parse(&pr.bytes).expect("honest parses");
            pf.l = (0..*nl).map(|i| kpoint::<G>(i as u64)).collect();
            pf.r = (0..*nr).map(|i| kpoint::<G>(100 + i as u64)).collect();
            let bytes = pf.encode();
            let Ok(hostile) = R1CSProof::<G>::from_bytes(&bytes) else {
                viol(st, "decodable", "shape-does-not-decode".into(), "a structurally valid object failed to decode".into());
                return;
            };
            match hostile_verify::<G>(&sc, &pr, &hostile, *via) {
                Err(m) => {
                    let rel = if nl < nr { "L<R" } else if nl > nr { "L>R" } else { "L=R" };
                    let sig = if nl != nr {
                        format!("ipp-list-length-mismatch:{}:{:?}", rel, via)
                    } else {
                        format!("shape-panic:{}:{:?}", rel, via)
                    };
                    viol(st, "no-panic", sig, format!("|L|={} |R|={} against a circuit with {}+{} gates via {:?}: PANIC {}", nl, nr, n1, n2, via, m));
                }
                Ok(_) => {
                    // any Ok / Err value is fine here (verdict correctness is C03/C04's business)
                    st.distinct(&format!("shape|{}|{}|{}|{}|{}|{:?}", curve.name(), n1, n2, nl, nr, via));
                }
            }
            st.sample(run, json!({"kind": "shape", "curve": curve.name(), "gates": [n1, n2], "L": nl, "R": nr, "via": format!("{:?}", via)}));
            st.log_digest(run, &bytes);
        }
        Case::Slot { curve, n1, n2, pt, sc: scs, via } => {
            st.fault("F13-identity-or-special-scalar");
            let sc = base_session(*curve, *n1, *n2);
            let Ok((pr, _)) = prove_case::<G>(&sc, false) else { return };
            let mut pf = ProofFields::<G>::parse(&pr.bytes).expect("honest parses");
            if let Some(i) = pt {
                if *i >= crate::tamper::n_pt_slots(&pf) {
                    return;
                }
                crate::tamper::pt_set(&mut pf, *i, G::zero());
            }
            if let Some((i, which)) = scs {
                let v = match which {
                    0 => G::ScalarField::from(0u64),
                    1 => G::ScalarField::from(1u64),
                    _ => -G::ScalarField::from(1u64),
                };
                crate::tamper::sc_set(&mut pf, *i, v);
            }
            let bytes = pf.encode();
            let Ok(hostile) = R1CSProof::<G>::from_bytes(&bytes) else {
                st.probe("slot-case-rejected-at-decoding");
                return;
            };
            match hostile_verify::<G>(&sc, &pr, &hostile, *via) {
                Err(m) => viol(st, "no-panic", format!("slot-panic:{:?}:{:?}:{:?}", pt.map(|i| crate::tamper::pt_name(&pf, i)), scs, via),
                               format!("identity at {:?} / scalar {:?} via {:?}: PANIC {}", pt, scs, via, m)),
                Ok(_) => st.distinct(&format!("slot|{}|{}|{}|{:?}|{:?}|{:?}", curve.name(), n1, n2, pt, scs, via)),
            }
            st.sample(run, json!({"kind": "slot", "curve": curve.name(), "gates": [n1, n2], "identity_at": pt, "scalar": scs}));
            st.log_digest(run, &bytes);
        }
        Case::NoHooks { curve, gates, nl, nr, via } => {
            for l in nohooks_run(&["one", curve, &gates.to_string(), &nl.to_string(), &nr.to_string(), via]).unwrap_or_default() {
                if let Some(v) = nohooks_violation(run, &l) {
                    st.violate(v);
                }
            }
        }
        Case::Stream { curve, n1, write, fault } => {
            st.fault(fault.kind());
            let sc = base_session(*curve, *n1, 0);
            let Ok((pr, _)) = prove_case::<G>(&sc, false) else { return };
            let honest = R1CSProof::<G>::from_bytes(&pr.bytes).expect("decodes");
            if *write {
                let mut w = FaultyWriter::new(fault.clone());
                let r = catch(|| honest.serialize_compressed(&mut w));
                match r {
                    Err(m) => viol(st, "no-panic", "stream-write-panic".into(), format!("serialize_compressed panicked under {:?}: {}", fault, m)),
                    Ok(res) => {
                        if fault.benign() {
                            if res.is_err() || w.out != pr.bytes {
                                viol(st, "benign-stream-fault-transparent", format!("write-benign:{}", fault.kind()), format!("benign write fault {:?}: result {:?}, {} bytes out of {}", fault, res.is_ok(), w.out.len(), pr.bytes.len()));
                            }
                        } else {
                            let at = match fault { StreamFault::ErrorAt { at } | StreamFault::EofAt { at } => *at, _ => 0 };
                            if at < pr.bytes.len() && res.is_ok() {
                                viol(st, "failed-write-reports-error", format!("write-hard:{}", fault.kind()), format!("writer failed after {} of {} bytes but serialize reported Ok", at, pr.bytes.len()));
                            }
                            if at >= pr.bytes.len() && (res.is_err() || w.out != pr.bytes) {
                                viol(st, "fault-after-end-harmless", format!("write-late:{}", fault.kind()), "fault beyond the end changed the result".into());
                            }
                        }
                        if w.fired > 0 { st.probe("stream-write-fault-fired"); }
                    }
                }
            } else {
                let mut rd = FaultyReader::new(&pr.bytes, fault.clone());
                let r = catch(|| R1CSProof::<G>::deserialize_compressed(&mut rd));
                match r {
                    Err(m) => viol(st, "no-panic", "stream-read-panic".into(), format!("deserialize_compressed panicked under {:?}: {}", fault, m)),
                    Ok(res) => {
                        if fault.benign() {
                            let same = res.as_ref().map(|p| p.to_bytes().unwrap_or_default() == pr.bytes).unwrap_or(false);
                            if !same {
                                viol(st, "benign-stream-fault-transparent", format!("read-benign:{}", fault.kind()), format!("benign read fault {:?} changed the result (ok={})", fault, res.is_ok()));
                            }
                        } else {
                            let at = match fault { StreamFault::ErrorAt { at } | StreamFault::EofAt { at } => *at, _ => 0 };
                            if at < pr.bytes.len() && res.is_ok() {
                                viol(st, "hard-read-fault-is-error", format!("read-hard:{}", fault.kind()), format!("stream failed after {} of {} bytes but a proof was returned", at, pr.bytes.len()));
                            }
                        }
                        if rd.fired > 0 { st.probe("stream-read-fault-fired"); }
                    }
                }
            }
            st.distinct(&format!("stream|{}|{}|{}|{:?}", curve.name(), n1, write, fault));
            st.sample(run, json!({"kind": "stream", "curve": curve.name(), "write": write, "fault": fault}));
        }
    }
}

fn nohooks_bin() -> String {
    format!("{}/sim-nohooks/target/release/bpsim-nohooks", std::env::var("VERIF_FIXTURES").unwrap_or_else(|_| "/verif".into()))
}

/// Run the companion binary (the crate under test built with the guard OFF).
fn nohooks_run(args: &[&str]) -> Option<Vec<String>> {
    let out = std::process::Command::new(nohooks_bin()).args(args).output().ok()?;
    Some(String::from_utf8_lossy(&out.stdout).lines().map(|l| l.to_string()).collect())
}

fn nohooks_violation(run: u64, line: &str) -> Option<Violation> {
    let rest = line.strip_prefix("PANIC ")?;
    let (head, msg) = rest.split_once(" :: ")?;
    let f: Vec<&str> = head.split_whitespace().collect();
    if f.len() != 5 {
        return None;
    }
    let (nl, nr): (usize, usize) = (f[2].parse().ok()?, f[3].parse().ok()?);
    let rel = if nl < nr { "L<R" } else if nl > nr { "L>R" } else { "L=R" };
    let cls = if nl != nr { "ipp-list-length-mismatch" } else { "shape-panic" };
    Some(Violation {
        run,
        oracle: "no-panic (crate built without the hook feature)".into(),
        signature: format!("{}:{}:{}:guard-off", cls, rel, f[4]),
        detail: format!("with the verif-hooks guard OFF: |L|={} |R|={} against a {}-gate circuit on {} via {}: PANIC {}", nl, nr, f[1], f[0], f[4], msg),
        case: to_value(&Case::NoHooks { curve: f[0].into(), gates: f[1].parse().ok()?, nl, nr, via: f[4].into() }),
    })
}

/// Deterministic enumeration: run index -> case.
pub struct Plan {
    pub shapes: Vec<Case>,
    pub slots: Vec<Case>,
    pub streams: Vec<Case>,
    pub n_bytes: u64,
}

pub fn plan(seed: u64, tier: Tier) -> Plan {
    let mut shapes = vec![];
    let rot = (seed % 3) as usize;
    for (ci, curve) in CURVES.iter().enumerate() {
        let main = tier == Tier::Thorough || ci == rot;
        let lmax = if main { tier.pick(6, 12) } else { 3 };
        let gmax = if main { tier.pick(17, 33) } else { 4 };
        // list lengths around the shift-width boundaries (1 << |L| on 32/64-bit words)
        let extra: Vec<usize> = if tier == Tier::Thorough {
            vec![31usize, 32, 33, 63, 64, 65, 66, 96, 128]
        } else if main {
            vec![31usize, 32, 33, 63, 64, 65, 128]
        } else {
            vec![32usize, 64]
        };
        let mut lens: Vec<usize> = (0..=lmax).collect();
        lens.extend(extra.iter());
        for g in 0..=gmax {
            for nl in &lens {
                for nr in &lens {
                    // huge lists only against a few circuit sizes
                    if (*nl > 12 || *nr > 12) && !(g == 0 || g == 1 || g == 8) {
                        continue;
                    }
                    // long x long pairs: the diagonal and the extremes are enough
                    if *nl > 12 && *nr > 12 && nl != nr && !(*nl == 128 || *nr == 128) && tier == Tier::Quick {
                        continue;
                    }
                    let (n1, n2) = if g % 3 == 2 && g > 1 { (g / 2, g - g / 2) } else { (g, 0) };
                    let vias: &[Via] = if main && g <= 8 { &[Via::Verify, Via::BatchAlone, Via::BatchBeside] } else { &[Via::Verify] };
                    for via in vias {
                        shapes.push(Case::Shape { curve: *curve, n1, n2, nl: *nl, nr: *nr, via: *via });
                    }
                }
            }
        }
    }
    let mut slots = vec![];
    for curve in CURVES.iter() {
        for (n1, n2) in [(0usize, 0usize), (1, 0), (3, 0), (2, 2), (0, 4)] {
            let k = std::cmp::max(1, (n1 + n2).next_power_of_two()).trailing_zeros() as usize;
            for via in [Via::Verify, Via::BatchBeside] {
                for pt in 0..(11 + 2 * k) {
                    slots.push(Case::Slot { curve: *curve, n1, n2, pt: Some(pt), sc: None, via });
                }
                for sc in 0..5 {
                    for w in 0..3u8 {
                        slots.push(Case::Slot { curve: *curve, n1, n2, pt: None, sc: Some((sc, w)), via });
                    }
                }
                // every point the identity and every scalar zero at once
                slots.push(Case::Slot { curve: *curve, n1, n2, pt: Some(3), sc: Some((3, 0)), via });
            }
        }
    }
    let mut streams = vec![];
    for curve in CURVES.iter() {
        for n1 in [0usize, 1, 5] {
            let total = size_law_for(*curve, n1);
            for write in [false, true] {
                for chunk in [1usize, 2, 7, 31, 33] {
                    streams.push(Case::Stream { curve: *curve, n1, write, fault: StreamFault::Short { chunk } });
                    streams.push(Case::Stream { curve: *curve, n1, write, fault: StreamFault::Interrupted { every: 2 + chunk % 3, chunk } });
                }
                let step = tier.pick(7, 1);
                let mut at = 0;
                while at <= total + 2 {
                    streams.push(Case::Stream { curve: *curve, n1, write, fault: StreamFault::ErrorAt { at } });
                    streams.push(Case::Stream { curve: *curve, n1, write, fault: StreamFault::EofAt { at } });
                    at += step;
                }
            }
        }
    }
    Plan { shapes, slots, streams, n_bytes: scaled(tier.pick(70_000, 2_000_000)) }
}

fn size_law_for(curve: Curve, gates: usize) -> usize {
    let k = std::cmp::max(1, gates.next_power_of_two()).trailing_zeros() as usize;
    with_curve!(curve, G, size_law::<G>(k))
}

/// Hostile list counts: every single-bit value and its neighbours, values whose product
/// with an element size (or shift by its log) wraps around 2^64 to something small, values
/// that truncate to the honest count in a narrower integer type.
fn hostile_counts(nl: u64, nr: u64, honest_len: u64) -> Vec<u64> {
    let mut v = vec![0u64, 1, nl, nl + 1, nr, u64::MAX, u64::MAX - 1, honest_len, honest_len / 32, honest_len / 33 + 1];
    for b in 0..64u32 {
        let p = 1u64 << b;
        v.extend([p, p.wrapping_sub(1), p.wrapping_add(nl), p.wrapping_add(nr), p | 1]);
    }
    for m in [8u128, 16, 32, 33, 48, 64, 65, 66, 96] {
        let q = ((1u128 << 64) / m) as u64;
        v.extend([q, q + 1, q.wrapping_add(nl), q + 1 + nl, q.wrapping_mul(2), q.wrapping_mul(3) + 1]);
    }
    for w in [8u32, 16, 31, 32, 48] {
        v.extend([(1u64 << w) + nl, (3u64 << w) + nl, (u64::MAX << w) | nl]);
    }
    v
}

fn gen_bytes_case(seed: u64, i: u64) -> Case {
    let curve = CURVES[(i % 3) as usize];
    let mut rng = sub_rng(seed, "C08", i, "bytes");
    let gates = below(&mut rng, 6);
    let honest_len = size_law_for(curve, gates);
    let mode = below(&mut rng, 10);
    let data: Vec<u8> = if mode < 3 {
        // plain random strings of every length 0..2|proof|
        let n = below(&mut rng, 2 * honest_len + 1);
        let mut d = vec![0u8; n];
        rng.fill_bytes(&mut d);
        d
    } else {
        with_curve!(curve, G, {
            // structure-aware: valid element encodings under hostile counts
            let mut pf = ProofFields::<G> {
                pts: [G::zero(); 11],
                scs: [<G as AffineRepr>::ScalarField::from(0u64); 3],
                l: vec![],
                r: vec![],
                a: <G as AffineRepr>::ScalarField::from(0u64),
                b: <G as AffineRepr>::ScalarField::from(0u64),
            };
            for (j, p) in pf.pts.iter_mut().enumerate() {
                *p = if chance(&mut rng, 1, 6) { G::zero() } else { kpoint::<G>(j as u64 + rng.next_u64() % 50) };
            }
            for s in pf.scs.iter_mut() {
                *s = match below(&mut rng, 4) { 0 => 0u64.into(), 1 => 1u64.into(), 2 => -<G as AffineRepr>::ScalarField::from(1u64), _ => rng.next_u64().into() };
            }
            pf.a = rng.next_u64().into();
            pf.b = if chance(&mut rng, 1, 3) { 0u64.into() } else { rng.next_u64().into() };
            let nl = below(&mut rng, 9);
            let nr = if chance(&mut rng, 1, 2) { nl } else { below(&mut rng, 9) };
            pf.l = (0..nl).map(|i| if chance(&mut rng, 1, 8) { G::zero() } else { kpoint::<G>(i as u64) }).collect();
            pf.r = (0..nr).map(|i| kpoint::<G>(50 + i as u64)).collect();
            let counts = hostile_counts(nl as u64, nr as u64, honest_len as u64);
            let (cl, cr) = match mode {
                3 | 4 | 5 => (nl as u64, nr as u64),
                6 => (*pick(&mut rng, &counts), nr as u64),
                7 => (nl as u64, *pick(&mut rng, &counts)),
                _ => (*pick(&mut rng, &counts), *pick(&mut rng, &counts)),
            };
            let mut d = pf.encode_with_counts(cl, cr);
            if mode == 9 {
                // guided byte mutation on top
                for _ in 0..(1 + below(&mut rng, 3)) {
                    if !d.is_empty() {
                        let p = below(&mut rng, d.len());
                        d[p] ^= 1 << below(&mut rng, 8);
                    }
                }
            }
            d
        })
    };
    Case::Bytes { curve, hex: hex(&data), gates }
}

pub fn run(ctx: &Ctx) -> i32 {
    let pl = plan(ctx.seed, ctx.tier);
    let (ns, nsl, nst) = (pl.shapes.len() as u64, pl.slots.len() as u64, pl.streams.len() as u64);
    let (ns_, nsl_, nst_) = (scaled(ns), scaled(nsl), scaled(nst));
    let total = ns_ + nsl_ + nst_ + pl.n_bytes;
    let stats = par_run(total, ctx.workers, |i, st| {
        let case = if i < ns_ {
            pl.shapes[(i * ns / ns_) as usize].clone()
        } else if i < ns_ + nsl_ {
            pl.slots[((i - ns_) * nsl / nsl_) as usize].clone()
        } else if i < ns_ + nsl_ + nst_ {
            pl.streams[((i - ns_ - nsl_) * nst / nst_) as usize].clone()
        } else {
            gen_bytes_case(ctx.seed, i)
        };
        let curve = match &case {
            Case::Bytes { curve, .. } | Case::Shape { curve, .. } | Case::Slot { curve, .. } | Case::Stream { curve, .. } => *curve,
            Case::NoHooks { .. } => Curve::Secq,
        };
        with_curve!(curve, G, run_case::<G>(i, &case, st));
    });
    // the same shape grid against the crate built with the guard OFF (what users link)
    let mut stats = stats;
    let mut nohooks_cases = 0u64;
    // (skipped in the guard-off leg of this check, which IS built against that crate configuration)
    if off_leg() {
        stats.probe("guard-off-build-exercised");
    } else {
    match nohooks_run(&["grid", ctx.tier.name()]) {
        Some(lines) if lines.iter().any(|l| l.starts_with("DONE ")) => {
            for (li, l) in lines.iter().enumerate() {
                if let Some(v) = nohooks_violation(total + li as u64, l) {
                    stats.violate(v);
                }
                if let Some(r) = l.strip_prefix("DONE cases=") {
                    nohooks_cases = r.split_whitespace().next().and_then(|x| x.parse().ok()).unwrap_or(0);
                }
            }
            stats.evaluations += nohooks_cases;
            stats.fault_n("F5-list-lengths(guard-off build)", nohooks_cases);
            stats.probe("guard-off-build-exercised");
        }
        _ => {
            if std::env::var("BPSIM_SELFTEST_SCALE").is_err() {
                eprintln!("HARNESS ERROR: companion binary {} missing or failed (./check builds it)", nohooks_bin());
                return 2;
            }
        }
    }
    }
    finish(
        ctx,
        stats,
        Report {
            level: "fault_enumeration",
            rule: "enumerated: every (|L|,|R|) pair of the grid x verifier circuits of every size x {verify, batch alone, batch beside an honest member}; identity in every point slot and 0/1/p-1 in every scalar slot; stream faults (short/interrupted = benign, error/EOF at every offset = hard) on deserialize_compressed(reader) and serialize_compressed(writer). sampled: random byte strings of every length 0..2|proof| and structure-aware garbage (valid element encodings under hostile counts up to 2^64-1, identities, zero scalars, guided bit mutations), decoded under a counting allocator with a cap and, when decodable, verified. Oracle: no panic / abort / OOB, peak decode memory <= 64 KiB + 64*len. distinct = distinct hostile cases that reached a verdict".into(),
            exhaustive: true,
            assumptions: {
                let mut a = base_assumptions();
                a.push("exhaustive refers to the (|L|,|R|) grid, slot and stream-offset spaces listed in rule, not to the byte-string sample".into());
                a.push("cases run in a child process under an address-space limit with an intent log, so an abort is attributed to its input".into());
                a
            },
            real_components: REAL.to_vec(),
            simulated_components: vec!["hostile channel (RefCodec-assembled garbage)", "Read/Write stream wrappers", "counting allocator with cap", "child-process isolation + intent log", "companion binary sim-nohooks: the (|L|,|R|) grid against /repo built WITHOUT the verif-hooks feature (public API only)"],
            extra: json!({"grid_cases": ns, "slot_cases": nsl, "stream_cases": nst, "byte_string_cases": pl.n_bytes, "guard_off_grid_cases": nohooks_cases}),
        },
    )
}

pub fn replay(case: &Value) -> Vec<Violation> {
    let case: Case = serde_json::from_value(case.clone()).expect("case json");
    let mut st = Stats::default();
    let curve = match &case {
        Case::Bytes { curve, .. } | Case::Shape { curve, .. } | Case::Slot { curve, .. } | Case::Stream { curve, .. } => *curve,
        Case::NoHooks { .. } => Curve::Secq,
    };
    with_curve!(curve, G, run_case::<G>(0, &case, &mut st));
    st.violations
}
