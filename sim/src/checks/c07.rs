//! C07 batch verification <=> conjunction of individual verifications (F8, F9).
use super::*;
use crate::faults::{self, WFault};
use crate::tamper::{self, Tamper};
use crate::with_curve;
use ark_bulletproofs::r1cs::batch_verify;
use merlin::Transcript;
use serde_json::json;

#[derive(Clone, Debug, PartialEq, Serialize, Deserialize)]
pub struct Member {
    /// which session's statement the verifier is built for
    pub stmt: usize,
    /// which session's proof is delivered (== stmt unless misdelivered)
    pub proof: usize,
    pub tamper: Tamper,
}

#[derive(Clone, Debug, Serialize, Deserialize)]
pub struct Case {
    pub sessions: Vec<SessionCase>,
    /// witness fault per session (bad-witness members)
    pub wfaults: Vec<Option<WFault>>,
    pub members: Vec<Member>,
    pub cap: Vec<usize>,
    pub batch_seed: u64,
    pub label: String,
}

pub fn run_case<G: AffineRepr>(run: u64, case: &Case, st: &mut Stats) {
    st.eval();
    let viol = |st: &mut Stats, oracle: &str, detail: String| {
        st.violate(Violation {
            run,
            oracle: oracle.into(),
            signature: format!("{}:{}", oracle, case.label),
            detail,
            case: to_value(case),
        });
    };
    // 1. run all prover nodes
    let mut proved: Vec<(Statement, Proved<G>)> = vec![];
    for (i, s) in case.sessions.iter().enumerate() {
        let mut sc = s.clone();
        if let Some(f) = &case.wfaults[i] {
            let (n1, _, _, _) = shape_of(&s.st);
            match faults::apply(&s.st, f, n1) {
                Some(x) => sc.st = x,
                None => {}
            }
        }
        match prove_case::<G>(&sc, false) {
            Ok((pr, _)) => {
                st.steps += pr.steps;
                proved.push((sc.st.clone(), pr));
            }
            Err(_) => {
                st.probe("no-proof(skipped)");
                return;
            }
        }
    }
    // 2. assemble deliveries
    struct Deliv<G: AffineRepr> {
        st: Statement,
        commitments: Vec<G>,
        proof: R1CSProof<G>,
    }
    let mut ds: Vec<Deliv<G>> = vec![];
    for m in &case.members {
        let (stm, prs) = &proved[m.stmt];
        let (_, prp) = &proved[m.proof];
        let Some(bytes) = tamper::apply_bytes::<G>(&prp.bytes, &m.tamper) else {
            st.probe("tamper-did-not-fit(skipped)");
            return;
        };
        let Ok(p) = R1CSProof::<G>::from_bytes(&bytes) else {
            st.probe("tampered-did-not-decode(skipped)");
            return;
        };
        if !matches!(m.tamper, Tamper::None) {
            st.fault(m.tamper.kind());
        }
        if m.stmt != m.proof {
            st.fault("F6-misdelivery");
        }
        ds.push(Deliv {
            st: stm.clone(),
            commitments: prs.commitments.clone(),
            proof: p,
        });
    }
    let bp = gens_with_history::<G>(&case.cap, parties_for(&case.cap));
    // all members share the Pedersen bases of session 0
    let pc = pc_gens_for::<G>(&case.sessions.get(0).map(|s| s.st.bases.clone()).unwrap_or(Bases::Default));
    // 3. individual verdicts (fresh verifier each)
    let mut indiv = vec![];
    for d in &ds {
        let v = run_verifier::<G>(&d.st, &d.commitments, &d.proof, &bp, false);
        st.steps += 1;
        if v.panicked() {
            st.probe("real-panicked(C08)");
            return;
        }
        indiv.push(v.accepted());
    }
    let all_ok = indiv.iter().all(|x| *x);
    // 4. the batch
    let mut transcripts: Vec<Transcript> = ds.iter().map(|d| Transcript::new(TLABELS[d.st.tlabel])).collect();
    let mut brng = CountingRng::new(case.batch_seed, RngMode::Normal);
    let res = catch(|| {
        let mut inst = vec![];
        for (d, t) in ds.iter().zip(transcripts.iter_mut()) {
            let (v, _sh) = build_verifier::<G>(&d.st, &d.commitments, t);
            inst.push((v, &d.proof));
        }
        batch_verify(&mut brng, inst, &pc, &bp)
    });
    st.steps += 1;
    let batch_ok = match res {
        Err(m) => {
            // every member returned a verdict on its own, so the batch must return one too
            viol(
                st,
                "batch-returns-a-verdict",
                format!("batch_verify panicked ({}) although every member returns a verdict individually: {:?} (capacity history {:?})", m, indiv, case.cap),
            );
            return;
        }
        Ok(r) => r.is_ok(),
    };
    if batch_ok != all_ok {
        viol(
            st,
            if batch_ok { "batch-accepts-only-if-all-verify" } else { "batch-accepts-if-all-verify" },
            format!(
                "batch_verify says {} but individual verdicts are {:?} ({} members, scenario {})",
                if batch_ok { "Ok" } else { "Err" },
                indiv,
                ds.len(),
                case.label
            ),
        );
        return;
    }
    st.probe(&format!("scenario:{}:{}", case.label, if all_ok { "all-valid" } else { "some-invalid" }));
    if brng.calls > 0 {
        st.probe("batch-rng-used");
    }
    let sizes: Vec<usize> = proved.iter().map(|(_, p)| p.padded).collect();
    st.distinct(&format!("{}|{}|{:?}|{:?}|{:?}", case.sessions.get(0).map(|s| s.st.curve.name()).unwrap_or("-"), case.label, sizes, indiv, case.members.iter().map(|m| m.tamper.kind()).collect::<Vec<_>>()));
    st.log_digest(run, format!("{:?}{}", indiv, batch_ok).as_bytes());
    st.sample(run, json!({"scenario": case.label, "members": case.members.len(), "padded_sizes": sizes, "individual": indiv, "batch_ok": batch_ok,
        "member_faults": case.members.iter().map(|m| m.tamper.kind()).collect::<Vec<_>>()}));
}

pub fn case_for(seed: u64, tier: Tier, run: u64) -> Case {
    use rand_core::RngCore;
    let curve = CURVES[(run % 3) as usize];
    let mut rng = sub_rng(seed, "C07", run, "case");
    let mut kn = tier.pick(gen::Knobs::quick(), gen::Knobs::thorough());
    kn.max_gates = tier.pick(16, 24);
    kn.seeded_bases = false;
    let maxn = tier.pick(6, 16);
    let ns = match below(&mut rng, 8) {
        0 => 0,
        1 => 1,
        _ => 1 + below(&mut rng, maxn),
    };
    // sometimes every member is a gate-free circuit (linear constraints over commitments only)
    let gate_free = chance(&mut rng, 1, 10);
    if gate_free {
        kn.max_gates = 0;
        kn.max_blocks = 0;
    }
    let mut sessions: Vec<SessionCase> = (0..ns).map(|_| gen_session_case(&mut rng, curve, &kn)).collect();
    // one pair of Pedersen bases for the whole batch: default, or caller-chosen
    // (value base, blinding base, or both)
    let batch_bases = match below(&mut rng, 6) {
        0 => Bases::Seeded(rng.next_u64()),
        1 => Bases::SeededValue(rng.next_u64()),
        2 => Bases::SeededBlinding(rng.next_u64()),
        _ => Bases::Default,
    };
    for s in sessions.iter_mut() {
        s.st.bases = batch_bases.clone();
    }
    let mut wfaults: Vec<Option<WFault>> = vec![None; ns];
    let mut members: Vec<Member> = (0..ns).map(|i| Member { stmt: i, proof: i, tamper: Tamper::None }).collect();
    let mut label = "all-honest".to_string();
    let d = gen_scalar_nonzero::<ark_secq256k1::Fr>(&mut rng);
    let neg = |s: &S| -> S {
        match s {
            S::U(u) => S::N(*u),
            S::N(u) => S::U(*u),
            S::B(h) => {
                // -x as (0 - x): expressed through ScAdd twice is not possible;
                // use small d instead
                let _ = h;
                S::N(1)
            }
        }
    };
    let d = if matches!(d, S::B(_)) { S::U(1 + rng.next_u64() % 1000) } else { d };
    if ns > 0 {
        match below(&mut rng, 10) {
            0 | 1 => {}
            2 => {
                // one faulty member at a drawn position
                let i = below(&mut rng, ns);
                let (_, _, _, padded) = shape_of(&sessions[i].st);
                let cat = tamper::catalogue(padded.trailing_zeros() as usize, &mut rng);
                if chance(&mut rng, 1, 4) {
                    // a member whose two inner-product lists differ in length (surplus / missing
                    // point in one list only): the batch concatenates all members' points, so a
                    // length error in one member must not shift or silently drop another's
                    members[i].tamper = match below(&mut rng, 5) {
                        0 => Tamper::AppendL(rng.next_u64()),
                        1 => Tamper::DupLastR,
                        2 => Tamper::DropLastL,
                        3 => Tamper::DropLastR,
                        _ => Tamper::AppendR(rng.next_u64()),
                    };
                    label = "one-member-with-unequal-lists".into();
                } else {
                    members[i].tamper = pick(&mut rng, &cat).clone();
                    label = "one-tampered".into();
                }
            }
            3 => {
                let i = below(&mut rng, ns);
                let (n1, n2, _, _) = shape_of(&sessions[i].st);
                wfaults[i] = faults::gen_fault(&mut rng, &sessions[i].st, n1, n2);
                label = "one-bad-witness".into();
            }
            4 if ns > 1 => {
                let i = below(&mut rng, ns);
                let j = (i + 1 + below(&mut rng, ns - 1)) % ns;
                members[i].proof = j;
                label = "misdelivered-member".into();
            }
            5 | 6 => {
                // the same proof with b+d and b-d (or a+d / a-d): residuals cancel under equal weights
                let i = below(&mut rng, ns);
                let slot = 3 + below(&mut rng, 2);
                let mut m1 = members[i].clone();
                m1.tamper = Tamper::ScAdd(slot, d.clone());
                let mut m2 = members[i].clone();
                m2.tamper = Tamper::ScAdd(slot, neg(&d));
                members[i] = m1;
                members.insert(below(&mut rng, members.len() + 1), m2);
                label = format!("plus-minus-d:{}", if slot == 3 { "a" } else { "b" });
            }
            7 => {
                // zero-sum triple d1 + d2 + d3 = 0
                let i = below(&mut rng, ns);
                let slot = 3 + below(&mut rng, 2);
                for dd in [S::U(5), S::U(7), S::N(12)] {
                    let mut m = members[i].clone();
                    m.tamper = Tamper::ScAdd(slot, dd);
                    members.insert(below(&mut rng, members.len() + 1), m);
                }
                members.retain(|m| !(m.stmt == i && matches!(m.tamper, Tamper::None)));
                label = "zero-sum-triple".into();
            }
            8 => {
                // duplicate delivery of an honest proof
                let i = below(&mut rng, ns);
                let m = members[i].clone();
                members.push(m);
                label = "duplicate-delivery".into();
            }
            _ => {
                // several faulty members
                for _ in 0..(2 + below(&mut rng, 2)) {
                    let i = below(&mut rng, ns);
                    members[i].tamper = Tamper::ScAdd(below(&mut rng, 5), S::U(1));
                }
                label = "several-tampered".into();
            }
        }
    } else {
        label = "empty-batch".into();
    }
    // seeded permutation of the delivery order
    for i in (1..members.len()).rev() {
        let j = below(&mut rng, i + 1);
        members.swap(i, j);
    }
    // position-aware cancellation: tuples of copies of one proof whose shifts
    // c_i * d (on an unabsorbed final scalar) satisfy sum c_i = 0 AND
    // sum pos_i * c_i = 0 (and for the 4-tuple also sum pos_i^2 * c_i = 0), so
    // that they cancel under weights that are affine (quadratic) in the position
    if ns > 0 && label == "all-honest" && chance(&mut rng, 1, 2) {
        let i = below(&mut rng, ns);
        let slot = 3 + below(&mut rng, 2);
        let sc = |k: i64| if k >= 0 { S::U(k as u64) } else { S::N((-k) as u64) };
        let mk = |k: i64| Member { stmt: i, proof: i, tamper: Tamper::ScAdd(slot, sc(k)) };
        members.retain(|m| m.stmt != i);
        if chance(&mut rng, 1, 2) {
            // three positions p0 < p1 < p2 with coefficients (p2-p1, -(p2-p0), p1-p0)
            let total = members.len() + 3;
            let mut ps: Vec<usize> = vec![];
            while ps.len() < 3 {
                let p = below(&mut rng, total);
                if !ps.contains(&p) {
                    ps.push(p);
                }
            }
            ps.sort();
            let (p0, p1, p2) = (ps[0] as i64, ps[1] as i64, ps[2] as i64);
            let coefs = [p2 - p1, -(p2 - p0), p1 - p0];
            for (p, c) in ps.iter().zip(coefs.iter()) {
                members.insert(std::cmp::min(*p, members.len()), mk(*c));
            }
            label = "affine-weight-cancelling-triple".into();
        } else {
            // four consecutive positions with coefficients (1, -3, 3, -1)
            let at = below(&mut rng, members.len() + 1);
            for (o, c) in [1i64, -3, 3, -1].iter().enumerate() {
                members.insert(at + o, mk(*c));
            }
            label = "quadratic-weight-cancelling-quadruple".into();
        }
    }
    if gate_free {
        label = format!("{}+all-gate-free", label);
    }
    if batch_bases != Bases::Default {
        label = format!("{}+custom-bases", label);
    }
    let need = sessions.iter().map(|s| shape_of(&s.st).3).max().unwrap_or(1);
    let mut cap = gen_cap_history(&mut rng, need);
    if ns > 1 && chance(&mut rng, 1, 25) {
        // shortage for the largest member: both sides must say Err
        cap = vec![need / 2];
        label = format!("{}+capacity-shortage", label);
    }
    for s in sessions.iter_mut() {
        s.cap_p = vec![shape_of(&s.st).3];
    }
    Case {
        sessions,
        wfaults,
        members,
        cap,
        batch_seed: rng.next_u64(),
        label,
    }
}

pub fn run(ctx: &Ctx) -> i32 {
    let n = scaled(ctx.tier.pick(2500, 60_000));
    let stats = par_run(n, ctx.workers, |i, st| {
        let case = case_for(ctx.seed, ctx.tier, i);
        let curve = case.sessions.get(0).map(|s| s.st.curve).unwrap_or(CURVES[(i % 3) as usize]);
        with_curve!(curve, G, run_case::<G>(i, &case, st));
    });
    finish(
        ctx,
        stats,
        Report {
            level: "exploration",
            rule: "the channel assembles batches from 0..N live sessions on one curve (mixed gate counts and phases, seeded order, shared generator store with its own capacity history): all honest; one tampered / bad-witness / misdelivered member at a drawn position; several faulty; duplicate delivery; and the adversarially correlated cases: the same proof with its unabsorbed final scalar a or b shifted by +d and -d, and zero-sum triples. Oracle: batch_verify Ok <=> every member's Verifier::verify on a fresh verifier is Ok. distinct by (curve, scenario, member sizes, individual verdicts, member fault kinds)".into(),
            exhaustive: false,
            assumptions: {
                let mut a = base_assumptions();
                a.push("the batch RNG is seeded by the simulator and not visible to the adversary role".into());
                a
            },
            real_components: REAL.to_vec(),
            simulated_components: vec!["batch-assembling channel", "batch RNG (seeded)", "tamper / witness-fault injectors"],
            extra: json!({}),
        },
    )
}

pub fn replay(case: &Value) -> Vec<Violation> {
    let case: Case = serde_json::from_value(case.clone()).expect("case json");
    let mut st = Stats::default();
    let curve = case.sessions.get(0).map(|s| s.st.curve).unwrap_or(Curve::Secq);
    with_curve!(curve, G, run_case::<G>(0, &case, &mut st));
    st.violations
}

pub fn shrink(case: &Value) -> Vec<Value> {
    let Ok(c) = serde_json::from_value::<Case>(case.clone()) else { return vec![] };
    let mut out = vec![];
    // fewer members
    for i in 0..c.members.len() {
        let mut d = c.clone();
        d.members.remove(i);
        out.push(to_value(&d));
    }
    // drop sessions nobody refers to
    for s in (0..c.sessions.len()).rev() {
        if c.members.iter().any(|m| m.stmt == s || m.proof == s) {
            continue;
        }
        let mut d = c.clone();
        d.sessions.remove(s);
        d.wfaults.remove(s);
        for m in d.members.iter_mut() {
            if m.stmt > s { m.stmt -= 1; }
            if m.proof > s { m.proof -= 1; }
        }
        out.push(to_value(&d));
    }
    // honest members instead of tampered ones, no witness faults
    for i in 0..c.members.len() {
        if !matches!(c.members[i].tamper, Tamper::None) {
            let mut d = c.clone();
            d.members[i].tamper = Tamper::None;
            out.push(to_value(&d));
        }
    }
    for i in 0..c.wfaults.len() {
        if c.wfaults[i].is_some() {
            let mut d = c.clone();
            d.wfaults[i] = None;
            out.push(to_value(&d));
        }
    }
    // simpler statements (only for sessions without a positional witness fault)
    for i in 0..c.sessions.len() {
        if c.wfaults[i].is_some() {
            continue;
        }
        for (b, _) in shrink_session(&c.sessions[i]).into_iter().take(12) {
            let mut d = c.clone();
            d.sessions[i] = b;
            let need = d.sessions.iter().map(|s| shape_of(&s.st).3).max().unwrap_or(1);
            d.cap = vec![need];
            out.push(to_value(&d));
        }
    }
    out
}
