//! C18 wire stability — persisted artefacts of the reference revision (F16).
use super::*;
use crate::checks::c05::Dev;
use crate::checks::c08::simple_statement;
use crate::codec::*;
use crate::refsession::SOp;
use crate::with_curve;
use serde_json::json;

#[derive(Clone, Debug, Serialize, Deserialize)]
pub struct Fixture {
    pub name: String,
    pub st: Statement,
    pub commitments: Vec<String>,
    pub proof: String,
    pub wrong: Vec<Dev>,
    /// (is_challenge, label, length) of every main-transcript operation
    pub schedule: Vec<(bool, String, usize)>,
    pub k: usize,
}

fn fixture_statements(curve: Curve) -> Vec<(String, Statement)> {
    let mut v = vec![];
    for n in [0usize, 1, 3, 8, 17] {
        v.push((format!("1phase-n{}", n), simple_statement(curve, n, 0)));
    }
    for (n1, n2) in [(0usize, 2usize), (2, 3)] {
        v.push((format!("2phase-{}-{}", n1, n2), simple_statement(curve, n1, n2)));
    }
    // randomized block present but gate-free
    let mut s = simple_statement(curve, 5, 0);
    s.ops.push(Op::Randomized(vec![
        Op::Challenge { label: 5 },
        Op::Constrain(Expr::scale(Expr::sub(Expr::V(0), Expr::K(S::U(6))), Coef::Chal(S::U(1), vec![0]))),
    ]));
    v.push(("2phase-5-0".into(), s));
    // scripted corners and a few generated programs (rich API use, user data, bases)
    for (name, st) in gen::scripted(curve) {
        v.push((format!("scripted-{}", name), st));
    }
    for i in 0..6u64 {
        let mut rng = rng_from_u64(1000 + i, "fixture-gen");
        let st = with_curve!(curve, G, gen::gen_statement::<<G as AffineRepr>::ScalarField>(&mut rng, curve, &gen::Knobs::quick()));
        v.push((format!("generated-{}", i), st));
    }
    v
}

fn first_constrain(st: &Statement) -> Option<(usize, Option<usize>)> {
    for (i, op) in st.ops.iter().enumerate() {
        if matches!(op, Op::Constrain(_)) {
            return Some((i, None));
        }
    }
    None
}

pub fn record<G: AffineRepr>(curve: Curve) -> Vec<Fixture> {
    let mut out = vec![];
    for (name, st) in fixture_statements(curve) {
        let (_, _, _, padded) = shape_of(&st);
        let sc = SessionCase { st: st.clone(), cap_p: vec![padded], cap_v: vec![padded], ext_seed: 20260101 };
        let Ok((pr, o)) = prove_case::<G>(&sc, true) else { continue };
        if !pr.satisfied {
            continue;
        }
        let v = deliver::<G>(&st, &pr.commitments, &pr.bytes, &sc.cap_v);
        if !v.accepted {
            continue;
        }
        let mut wrong = vec![];
        if st.n_commits() > 0 {
            wrong.push(Dev::CommitOtherValue(0, S::U(1)));
        }
        if let Some(at) = first_constrain(&st) {
            wrong.push(Dev::Constant(at, S::U(1)));
        }
        wrong.push(Dev::TLabel((st.tlabel + 1) % TLABELS.len()));
        let schedule = main_ops(&o.log, o.tid).iter().map(|x| x.shape()).collect();
        out.push(Fixture {
            name: format!("{}/{}", curve.name(), name),
            st,
            commitments: pr.commitments.iter().map(|c| hex(&enc_point(c))).collect(),
            proof: hex(&pr.bytes),
            wrong,
            schedule,
            k: padded.trailing_zeros() as usize,
        });
    }
    out
}

pub fn record_all(verif_dir: &str, rev: &str) -> i32 {
    let mut gens = serde_json::Map::new();
    let mut fixtures: Vec<Fixture> = vec![];
    for curve in CURVES {
        let r = with_curve!(curve, G, crate::checks::c12::global_facts::<G>(256));
        match r {
            Ok((dg, dp)) => {
                gens.insert(curve.name().into(), json!({"gens_256x4_sha3_256": dg, "pedersen_sha3_256": dp}));
            }
            Err(e) => {
                eprintln!("cannot record generator digests: {}", e);
                return 2;
            }
        }
        fixtures.extend(with_curve!(curve, G, record::<G>(curve)));
    }
    gens.insert("recorded_from".into(), json!(rev));
    let _ = std::fs::create_dir_all(format!("{}/fixtures", verif_dir));
    std::fs::write(format!("{}/fixtures/gens.json", verif_dir), serde_json::to_string_pretty(&Value::Object(gens)).unwrap()).unwrap();
    std::fs::write(
        format!("{}/fixtures/wire.json", verif_dir),
        serde_json::to_string(&json!({"recorded_from": rev, "fixtures": fixtures})).unwrap(),
    )
    .unwrap();
    println!("recorded {} wire fixtures and generator digests from {}", fixtures.len(), rev);
    0
}

fn schedule_shape(ops: &[SOp]) -> Vec<(bool, String, usize)> {
    ops.iter().map(|o| o.shape()).collect()
}

pub fn run_fixture<G: AffineRepr>(run: u64, fx: &Fixture, fresh_seed: u64, st: &mut Stats) {
    st.eval();
    st.fault("F16-artefact-of-reference-revision");
    let viol = |st: &mut Stats, oracle: &str, detail: String| {
        st.violate(Violation {
            run,
            oracle: oracle.into(),
            signature: format!("{}:{}", oracle, fx.name),
            detail,
            case: json!({"fixture": fx.name, "fresh_seed": fresh_seed}),
        });
    };
    let bytes = unhex(&fx.proof);
    let commitments: Vec<G> = match fx.commitments.iter().map(|h| dec_point::<G>(&unhex(h))).collect::<Result<Vec<_>, _>>() {
        Ok(c) => c,
        Err(e) => {
            viol(st, "recorded-commitments-decode", e);
            return;
        }
    };
    let (_, _, _, padded) = shape_of(&fx.st);
    let cap = vec![padded];
    // 1. accepted for its statement
    let v = deliver::<G>(&fx.st, &commitments, &bytes, &cap);
    st.steps += 1;
    if !v.accepted {
        viol(st, "recorded-proof-still-accepted", format!("proof recorded from the reference revision is now {}", v.text));
        return;
    }
    // ... rejected for the recorded wrong statements
    for d in &fx.wrong {
        let case = crate::checks::c05::Case { base: SessionCase { st: fx.st.clone(), cap_p: cap.clone(), cap_v: cap.clone(), ext_seed: 0 }, dev: d.clone() };
        if let Some((vst, vcomm)) = crate::checks::c05::deviate::<G>(&case, &commitments) {
            let w = deliver::<G>(&vst, &vcomm, &bytes, &cap);
            st.steps += 1;
            if w.accepted || w.panicked {
                viol(st, "recorded-wrong-statement-rejected", format!("wrong statement {:?}: {}", d.kind(), w.text));
                return;
            }
            st.probe("wrong-statement-rejected");
        }
    }
    // 2. layout
    match R1CSProof::<G>::from_bytes(&bytes) {
        Ok(p) => {
            if p.to_bytes().unwrap_or_default() != bytes {
                viol(st, "layout-bit-for-bit", "to_bytes(from_bytes(fixture)) != fixture".into());
                return;
            }
        }
        Err(_) => {
            viol(st, "layout-bit-for-bit", "fixture no longer decodes".into());
            return;
        }
    }
    match ProofFields::<G>::parse(&bytes) {
        Ok(pf) => {
            if pf.l.len() != fx.k || bytes.len() != size_law::<G>(fx.k) {
                viol(st, "layout-size-law", format!("k={} len={}", pf.l.len(), bytes.len()));
                return;
            }
            // the reference relations accept the recorded proof too
            let rf = crate::refsession::ref_verify::<G>(&fx.st, &commitments, &pf);
            if !rf.accept() {
                viol(st, "reference-accepts-recorded", rf.why());
                return;
            }
            if schedule_shape(&rf.sched) != fx.schedule {
                viol(st, "recorded-schedule-equals-reference", "label/length schedule recorded from the reference revision differs from RefSchedule".into());
                return;
            }
        }
        Err(e) => {
            viol(st, "layout-refcodec", e);
            return;
        }
    }
    // 4. a fresh session on the current tree follows the recorded schedule
    let sc = SessionCase { st: fx.st.clone(), cap_p: cap.clone(), cap_v: cap.clone(), ext_seed: fresh_seed };
    match prove_case::<G>(&sc, true) {
        Ok((pr, o)) => {
            st.steps += pr.steps;
            let sched = schedule_shape(&main_ops(&o.log, o.tid));
            if sched != fx.schedule {
                let i = sched.iter().zip(fx.schedule.iter()).position(|(a, b)| a != b).unwrap_or(std::cmp::min(sched.len(), fx.schedule.len()));
                viol(st, "fresh-schedule-equals-recorded", format!("fresh prover schedule deviates from the recorded one at op #{}: {:?} vs {:?}", i, sched.get(i), fx.schedule.get(i)));
                return;
            }
            if pr.commitments != commitments {
                viol(st, "commitments-reproduced", "commitments for the same (v, r) differ from the recorded ones".into());
                return;
            }
            // mixed-version pair: fresh proof judged by the reference verifier
            if let Some(rf) = ref_verdict::<G>(&fx.st, &pr.commitments, &pr.bytes) {
                if !rf.accept() {
                    viol(st, "fresh-proof-accepted-by-reference", rf.why());
                    return;
                }
            }
            st.probe("fresh-session-follows-recorded-schedule");
        }
        Err(e) => {
            viol(st, "fresh-prove", e);
            return;
        }
    }
    st.distinct(&format!("{}|{}", fx.name, fresh_seed % 4));
    st.log_digest(run, &bytes);
    st.sample(run, json!({"fixture": fx.name, "proof_bytes": bytes.len(), "wrong_statements": fx.wrong.iter().map(|d| d.kind()).collect::<Vec<_>>(), "schedule_len": fx.schedule.len()}));
}

pub fn load(verif_dir: &str) -> Result<Vec<Fixture>, String> {
    let p = format!("{}/fixtures/wire.json", verif_dir);
    let s = std::fs::read_to_string(&p).map_err(|e| format!("{}: {}", p, e))?;
    let v: Value = serde_json::from_str(&s).map_err(|e| e.to_string())?;
    serde_json::from_value(v["fixtures"].clone()).map_err(|e| e.to_string())
}

fn fixtures_dir() -> String {
    std::env::var("VERIF_FIXTURES").unwrap_or_else(|_| "/verif".into())
}

pub fn run(ctx: &Ctx) -> i32 {
    let fxs = match load(&fixtures_dir()) {
        Ok(f) => f,
        Err(e) => {
            eprintln!("HARNESS ERROR: fixtures: {}", e);
            return 2;
        }
    };
    let reps = ctx.tier.pick(4u64, 100);
    let n = scaled(fxs.len() as u64 * reps);
    let mut stats = par_run(n, ctx.workers, |i, st| {
        let fx = &fxs[(i % fxs.len() as u64) as usize];
        let fresh = derive_seed(ctx.seed, "C18", i, "fresh");
        with_curve!(fx.st.curve, G, run_fixture::<G>(i, fx, fresh, st));
    });
    // 3. generators and bases bit for bit
    let gfx: Option<Value> = std::fs::read_to_string(format!("{}/fixtures/gens.json", fixtures_dir())).ok().and_then(|t| serde_json::from_str(&t).ok());
    for curve in CURVES {
        stats.eval();
        let r = with_curve!(curve, G, crate::checks::c12::global_facts::<G>(256));
        let ok = match (&r, &gfx) {
            (Ok((dg, dp)), Some(f)) => f[curve.name()]["gens_256x4_sha3_256"].as_str() == Some(dg) && f[curve.name()]["pedersen_sha3_256"].as_str() == Some(dp),
            _ => false,
        };
        if !ok {
            stats.violate(Violation { run: 0, oracle: "generators-bit-for-bit".into(), signature: format!("gens:{}", curve.name()), detail: format!("generators / Pedersen bases differ from the recorded digests ({:?})", r), case: json!({"global": curve.name()}) });
        } else {
            stats.probe("generator-digests-reproduced");
        }
    }
    finish(
        ctx,
        stats,
        Report {
            level: "exploration",
            rule: "every artefact recorded once from the reference revision (per curve: one-phase circuits of 0,1,3,8,17 gates, two-phase (0,2),(2,3),(5,0), scripted corner programs and generated programs; proof bytes, commitments, wrong statements, label/length schedule, generator digests) is replayed on the current tree: accept for its statement, reject for each recorded wrong statement, bit-identical re-encoding and size law, reference relations accept, recorded schedule == RefSchedule; plus fresh sessions of the same programs under new seeds must follow the recorded schedule, reproduce the commitments and be accepted by the reference verifier. distinct by (fixture, seed class)".into(),
            exhaustive: false,
            assumptions: {
                let mut a = base_assumptions();
                a.push("fixtures were recorded by this harness from /repo at the revision named in fixtures/wire.json (reference revision + guarded hooks only)".into());
                a
            },
            real_components: REAL.to_vec(),
            simulated_components: vec!["persisted artefacts (fixtures)", "RefVerifier / RefSchedule / RefCodec standing in for the other version"],
            extra: json!({"fixtures": fxs.len()}),
        },
    )
}

pub fn replay(case: &Value) -> Vec<Violation> {
    let mut st = Stats::default();
    if let (Some(name), Ok(fxs)) = (case["fixture"].as_str(), load(&fixtures_dir())) {
        if let Some(fx) = fxs.iter().find(|f| f.name == name) {
            let fresh = case["fresh_seed"].as_u64().unwrap_or(1);
            with_curve!(fx.st.curve, G, run_fixture::<G>(0, fx, fresh, &mut st));
        }
    } else if let Some(c) = case["global"].as_str() {
        let gfx: Option<Value> = std::fs::read_to_string(format!("{}/fixtures/gens.json", fixtures_dir())).ok().and_then(|t| serde_json::from_str(&t).ok());
        for curve in CURVES {
            if curve.name() != c {
                continue;
            }
            let r = with_curve!(curve, G, crate::checks::c12::global_facts::<G>(256));
            let ok = match (&r, &gfx) {
                (Ok((dg, dp)), Some(f)) => f[curve.name()]["gens_256x4_sha3_256"].as_str() == Some(dg) && f[curve.name()]["pedersen_sha3_256"].as_str() == Some(dp),
                _ => false,
            };
            if !ok {
                st.violate(Violation { run: 0, oracle: "generators-bit-for-bit".into(), signature: format!("gens:{}", curve.name()), detail: "generator digests differ".into(), case: case.clone() });
            }
        }
    }
    st.violations
}
