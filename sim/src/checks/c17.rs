//! C17 too few generators — resource shortage at the exact threshold (F12, enumerated).
use super::*;
use crate::checks::c08::simple_statement;
use crate::with_curve;
use ark_bulletproofs::r1cs::{batch_verify, R1CSError};
use ark_bulletproofs::BulletproofGens;
use merlin::Transcript;
use serde_json::json;

#[derive(Clone, Debug, Serialize, Deserialize)]
pub struct Case {
    pub curve: Curve,
    pub n1: usize,
    pub n2: usize,
    pub parties: usize,
    pub cap_max: usize,
    /// restrict to one cell (replay)
    pub only_cap_p: Option<usize>,
    pub only_cap_v: Option<usize>,
}

pub fn run_case<G: AffineRepr>(run: u64, case: &Case, st: &mut Stats) {
    let stmt = simple_statement(case.curve, case.n1, case.n2);
    let n = case.n1 + case.n2;
    let need = std::cmp::max(1, n.next_power_of_two());
    let viol = |st: &mut Stats, oracle: &str, cp: Option<usize>, cv: Option<usize>, detail: String| {
        let mut c = case.clone();
        c.only_cap_p = cp;
        c.only_cap_v = cv;
        st.violate(Violation {
            run,
            oracle: oracle.into(),
            signature: format!("{}:{}", oracle, case.curve.name()),
            detail,
            case: to_value(&c),
        });
    };
    // prover side: one prove per capacity, same external seed
    let mut reference_bytes: Option<Vec<u8>> = None;
    let mut reference_comm: Vec<G> = vec![];
    let caps_p: Vec<usize> = match case.only_cap_p {
        Some(c) => vec![c, need],
        None => (0..=case.cap_max).collect(),
    };
    for cap_p in caps_p {
        st.eval();
        st.fault("F12-capacity");
        // half of the stores reach their capacity through a history that ends
        // with a smaller (no-op) request: the usable capacity must not shrink
        let mut bp = BulletproofGens::<G>::new(cap_p, case.parties);
        if cap_p % 2 == 1 {
            bp.increase_capacity(cap_p / 2);
            st.probe("store-with-later-smaller-request");
        }
        let out = run_prover::<G>(&stmt, &bp, &ProverCfg { ext_seed: 4242, ext_mode: RngMode::Normal, record: false });
        st.steps += out.shared.borrow().steps as u64 + 1;
        let short = cap_p < need;
        if cap_p == need {
            st.probe("capacity==threshold");
        }
        if cap_p + 1 == need {
            st.probe("capacity==threshold-1");
        }
        match &out.result {
            Err(Err(m)) => {
                viol(st, "prove-no-panic", Some(cap_p), None, format!("prove panicked with capacity {} (need {}): {}", cap_p, need, m));
                return;
            }
            Err(Ok(R1CSError::InvalidGeneratorsLength)) => {
                if !short {
                    viol(st, "prove-error-iff-short", Some(cap_p), None, format!("capacity {} >= {} but prove says InvalidGeneratorsLength", cap_p, need));
                    return;
                }
            }
            Err(Ok(e)) => {
                viol(st, "prove-error-kind", Some(cap_p), None, format!("capacity {} (need {}): prove returned {:?}", cap_p, need, e));
                return;
            }
            Ok(p) => {
                if short {
                    viol(st, "prove-error-iff-short", Some(cap_p), None, format!("capacity {} < {} but prove succeeded", cap_p, need));
                    return;
                }
                let b = proof_bytes(p);
                match &reference_bytes {
                    None => {
                        reference_bytes = Some(b);
                        reference_comm = out.commitments.clone();
                    }
                    Some(r) => {
                        if *r != b {
                            viol(st, "proof-independent-of-slack", Some(cap_p), None, format!("same seed, capacity {} vs threshold {}: proof bytes differ", cap_p, need));
                            return;
                        }
                        st.probe("proof-bytes-equal-across-slack");
                    }
                }
            }
        }
    }
    let Some(bytes) = reference_bytes else { return };
    let proof = R1CSProof::<G>::from_bytes(&bytes).expect("decodes");
    let pc = pc_gens_for::<G>(&stmt.bases);
    let caps_v: Vec<usize> = match case.only_cap_v {
        Some(c) => vec![c],
        None => (0..=case.cap_max).collect(),
    };
    for cap_v in caps_v {
        st.eval();
        st.fault("F12-capacity");
        let mut bp = BulletproofGens::<G>::new(cap_v, case.parties);
        if cap_v % 2 == 0 && cap_v > 0 {
            bp.increase_capacity(cap_v - 1);
        }
        let short = cap_v < need;
        // verify
        let v = run_verifier::<G>(&stmt, &reference_comm, &proof, &bp, false);
        st.steps += 2;
        let judge = |st: &mut Stats, who: &str, r: &Result<Result<(), R1CSError>, String>| -> bool {
            match r {
                Err(m) => {
                    viol(st, "verify-no-panic", None, Some(cap_v), format!("{} panicked with capacity {} (need {}): {}", who, cap_v, need, m));
                    false
                }
                Ok(Ok(())) => {
                    if short {
                        viol(st, "verify-error-iff-short", None, Some(cap_v), format!("{}: capacity {} < {} but accepted", who, cap_v, need));
                        return false;
                    }
                    true
                }
                Ok(Err(R1CSError::InvalidGeneratorsLength)) => {
                    if !short {
                        viol(st, "verify-error-iff-short", None, Some(cap_v), format!("{}: capacity {} >= {} but InvalidGeneratorsLength", who, cap_v, need));
                        return false;
                    }
                    true
                }
                Ok(Err(e)) => {
                    viol(st, "verify-error-kind", None, Some(cap_v), format!("{}: capacity {} (need {}): {:?}", who, cap_v, need, e));
                    false
                }
            }
        };
        if !judge(st, "verify", &v.verdict) {
            return;
        }
        // batch: alone, and beside a small well-provisioned member
        for beside in [false, true] {
            let small = simple_statement(case.curve, 0, 0);
            let small_out = if beside {
                let bp1 = BulletproofGens::<G>::new(1, 1);
                let o = run_prover::<G>(&small, &bp1, &ProverCfg::default());
                match o.result {
                    Ok(p) => Some((o.commitments.clone(), p)),
                    _ => None,
                }
            } else {
                None
            };
            let mut t1 = Transcript::new(TLABELS[stmt.tlabel]);
            let mut t2 = Transcript::new(TLABELS[small.tlabel]);
            let mut rng = CountingRng::new(7, RngMode::Normal);
            let r = catch(|| {
                let mut inst = vec![];
                if let Some((c, p)) = &small_out {
                    let (v, _) = build_verifier::<G>(&small, c, &mut t2);
                    inst.push((v, p));
                }
                let (v, _) = build_verifier::<G>(&stmt, &reference_comm, &mut t1);
                inst.push((v, &proof));
                batch_verify(&mut rng, inst, &pc, &bp)
            });
            // the small member needs capacity 1
            let short_b = short || (beside && cap_v < 1);
            let r2 = match r {
                Err(m) => Err(m),
                Ok(x) => Ok(x),
            };
            let ok = match &r2 {
                Err(m) => {
                    viol(st, "verify-no-panic", None, Some(cap_v), format!("batch_verify (beside={}) panicked with capacity {} (need {}): {}", beside, cap_v, need, m));
                    false
                }
                Ok(Ok(())) if short_b => {
                    viol(st, "verify-error-iff-short", None, Some(cap_v), format!("batch (beside={}): capacity {} < {} but accepted", beside, cap_v, need));
                    false
                }
                Ok(Err(R1CSError::InvalidGeneratorsLength)) if !short_b => {
                    viol(st, "verify-error-iff-short", None, Some(cap_v), format!("batch (beside={}): capacity {} sufficient but InvalidGeneratorsLength", beside, cap_v));
                    false
                }
                Ok(Err(e)) if *e != R1CSError::InvalidGeneratorsLength => {
                    viol(st, "verify-error-kind", None, Some(cap_v), format!("batch (beside={}): capacity {}: {:?}", beside, cap_v, e));
                    false
                }
                _ => true,
            };
            if !ok {
                return;
            }
            st.steps += 1;
        }
        st.distinct(&format!("{}|{}|{}|{}|{}", case.curve.name(), case.n1, case.n2, case.parties, cap_v));
    }
    st.log_digest(run, &bytes);
    st.sample(run, json!({"curve": case.curve.name(), "n1": case.n1, "n2": case.n2, "threshold": need, "parties": case.parties, "capacities": format!("0..={} on both sides", case.cap_max)}));
}

pub fn cases(_seed: u64, tier: Tier) -> Vec<Case> {
    let mut v = vec![];
    for curve in CURVES.iter() {
        let (m1, m2, cm) = tier.pick((6usize, 5usize, 18usize), (10, 8, 40));
        for n1 in 0..=m1 {
            for n2 in 0..=m2 {
                for parties in 1..=tier.pick(2usize, 3) {
                    v.push(Case { curve: *curve, n1, n2, parties, cap_max: cm, only_cap_p: None, only_cap_v: None });
                }
            }
        }
    }
    v
}

pub fn run(ctx: &Ctx) -> i32 {
    let cs = cases(ctx.seed, ctx.tier);
    let n = scaled(cs.len() as u64);
    let stats = par_run(n, ctx.workers, |i, st| {
        let case = &cs[(i * cs.len() as u64 / n) as usize];
        with_curve!(case.curve, G, run_case::<G>(i, case, st));
    });
    finish(
        ctx,
        stats,
        Report {
            level: "fault_enumeration",
            rule: "EVERY (n1, n2, capP, capV) of the grid: prove with every prover capacity (same external seed), then verify / batch_verify (alone and beside a well-provisioned member) with every verifier capacity. Oracle with N = max(1, next_pow2(n1+n2)): Err(InvalidGeneratorsLength) iff capacity < N, no panic; proof bytes identical for all capacities >= N; accept for all capV >= N. distinct = (curve, n1, n2, parties, capV) cells verified".into(),
            exhaustive: true,
            assumptions: {
                let mut a = base_assumptions();
                a.push("party_capacity >= 1 (the property's quantifier does not include 0 parties)".into());
                a
            },
            real_components: REAL.to_vec(),
            simulated_components: vec!["resource-shortage configurator (generator stores of every capacity)", "seeded external RNG"],
            extra: json!({"cells": cs.len()}),
        },
    )
}

pub fn replay(case: &Value) -> Vec<Violation> {
    let case: Case = serde_json::from_value(case.clone()).expect("case json");
    let mut st = Stats::default();
    with_curve!(case.curve, G, run_case::<G>(0, &case, &mut st));
    st.violations
}
