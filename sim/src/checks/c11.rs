//! C11 encoding round-trip, size law, strict decoding — torn writes and bad streams.
use super::*;
use crate::codec::*;
use crate::streams::*;
use crate::with_curve;
use ark_bulletproofs::r1cs::R1CSError;
use ark_ec::CurveGroup;
use ark_ff::{BigInteger, PrimeField as _};
use ark_serialize::{CanonicalDeserialize, CanonicalSerialize};
use ark_std::UniformRand;
use serde_json::json;

#[derive(Clone, Debug, Serialize, Deserialize)]
pub struct Case {
    pub curve: Curve,
    pub n1: usize,
    pub n2: usize,
    pub ext_seed: u64,
    /// restrict to a single mutation (replay of a minimised finding)
    pub only: Option<String>,
}

fn is_format_error<G: AffineRepr>(bytes: &[u8]) -> Result<(), String> {
    match catch(|| R1CSProof::<G>::from_bytes(bytes)) {
        Err(m) => Err(format!("from_bytes panicked: {}", m)),
        Ok(Ok(_)) => Err("decoded successfully".into()),
        Ok(Err(R1CSError::FormatError)) => Ok(()),
        Ok(Err(e)) => Err(format!("rejected with {:?} instead of FormatError", e)),
    }
}

/// encodings of non-canonical scalars (>= modulus)
fn bad_scalars<G: AffineRepr>(rng: &mut Rng) -> Vec<(String, Vec<u8>)> {
    type F<G> = <G as AffineRepr>::ScalarField;
    let p = F::<G>::MODULUS;
    let mut out = vec![];
    let pb = p.to_bytes_le();
    out.push(("p".to_string(), pb.clone()));
    let mut p1 = p;
    p1.add_with_carry(&<F<G> as ark_ff::PrimeField>::BigInt::from(1u64));
    out.push(("p+1".to_string(), p1.to_bytes_le()));
    out.push(("2^256-1".to_string(), vec![0xff; 32]));
    // high bits set on an otherwise valid scalar, where the field is shorter than 256 bits
    let bits = F::<G>::MODULUS_BIT_SIZE as usize;
    let s = F::<G>::rand(rng);
    let sb = enc_scalar(&s);
    for bit in bits..256 {
        let mut b = sb.clone();
        b[bit / 8] |= 1 << (bit % 8);
        out.push((format!("valid|bit{}", bit), b));
    }
    out
}

/// encodings of invalid points
fn bad_points<G: AffineRepr>(rng: &mut Rng) -> Vec<(String, Vec<u8>)> {
    let mut out = vec![];
    let ps = point_size::<G>();
    // (1) a coordinate for which no curve point exists: search random encodings
    let good = enc_point(&G::rand(rng));
    let mut tries = 0;
    while tries < 200 {
        tries += 1;
        let mut b = good.clone();
        // re-randomise the coordinate bytes, keep the flag byte/bits
        for x in b.iter_mut().take(ps - 1) {
            *x = (rand_core::RngCore::next_u32(rng) & 0xff) as u8;
        }
        if ps == 32 {
            b[31] &= 0x3f;
        }
        if G::deserialize_compressed_unchecked(&b[..]).is_err() {
            out.push(("no-point-for-coordinate".to_string(), b));
            break;
        }
    }
    // (2) both flag bits set
    // (only where a separate flag byte exists: 33-byte short-Weierstrass encodings)
    if ps == 33 {
        let mut b = good.clone();
        b[ps - 1] |= 0xc0;
        out.push(("both-flag-bits".to_string(), b));
    }
    out
}

fn dec_point_unchecked(b: &[u8]) -> Result<ark_curve25519::EdwardsAffine, ()> {
    <ark_curve25519::EdwardsAffine as CanonicalDeserialize>::deserialize_compressed_unchecked(b).map_err(|_| ())
}

/// torsion-shifted encodings on curve25519: P + T for T of order 2, 4, 8, and
/// the small-order points themselves
fn torsion_points(rng: &mut Rng) -> Vec<(String, Vec<u8>)> {
    use ark_curve25519::{EdwardsAffine as A, EdwardsProjective as P, Fr};
    use ark_ec::twisted_edwards::Affine;
    let mut out = vec![];
    // find T8 of order 8: r * R for random curve points R (not cofactor-cleared)
    let r = Fr::MODULUS;
    let mut t8: Option<P> = None;
    for _ in 0..200 {
        let y = ark_curve25519::Fq::rand(rng);
        if let Some(pt) = Affine::<ark_curve25519::Curve25519Config>::get_point_from_y_unchecked(y, false) {
            let t: P = pt.mul_bigint(r);
            // order exactly 8 <=> 4*t != 0
            let t4 = t + t + t + t;
            if !ark_std::Zero::is_zero(&t4) {
                t8 = Some(t);
                break;
            }
        }
    }
    let Some(t8) = t8 else { return out };
    let t4 = t8 + t8;
    let t2 = t4 + t4;
    let p: P = A::rand(rng).into_group();
    for (name, t) in [("order2", t2), ("order4", t4), ("order8", t8)] {
        out.push((format!("small-order-point:{}", name), enc_point(&t.into_affine())));
        out.push((format!("P+T:{}", name), enc_point(&(p + t).into_affine())));
    }
    out
}

pub fn run_case<G: AffineRepr>(run: u64, case: &Case, st: &mut Stats) {
    crate::checks::c08::intent(&crate::checks::c08::Case::Shape { curve: case.curve, n1: case.n1, n2: case.n2, nl: 0, nr: 0, via: crate::checks::c08::Via::Verify });
    st.eval();
    let viol = |st: &mut Stats, oracle: &str, what: &str, detail: String| {
        let mut c = case.clone();
        c.only = Some(what.to_string());
        st.violate(Violation {
            run,
            oracle: oracle.into(),
            signature: format!("{}:{}:{}", oracle, what.split(':').next().unwrap_or(""), case.curve.name()),
            detail,
            case: to_value(&c),
        });
    };
    let want = |what: &str| case.only.as_ref().map(|o| o == what).unwrap_or(true);
    let st_ = crate::checks::c08::simple_statement(case.curve, case.n1, case.n2);
    let (_, _, _, padded) = shape_of(&st_);
    let sc = SessionCase { st: st_, cap_p: vec![padded], cap_v: vec![padded], ext_seed: case.ext_seed };
    let Ok((pr, out)) = prove_case::<G>(&sc, false) else {
        st.probe("no-proof(skipped)");
        return;
    };
    let proof = out.result.as_ref().ok().unwrap();
    st.steps += pr.steps;
    let k = padded.trailing_zeros() as usize;
    let bytes = pr.bytes.clone();
    // determinism
    if want("determinism") {
        let again = proof.to_bytes().unwrap_or_default();
        if again != bytes {
            viol(st, "encoding-deterministic", "determinism", "two to_bytes calls on the same proof differ".into());
        }
    }
    // size law
    if want("size-law") {
        let law = size_law::<G>(k);
        if bytes.len() != law {
            viol(st, "size-law", "size-law", format!("{} gates (k={}): {} bytes, law says {}", case.n1 + case.n2, k, bytes.len(), law));
        }
        st.steps += 1;
    }
    // round trip + same verdict + field-by-field agreement with RefCodec
    if want("round-trip") {
        match R1CSProof::<G>::from_bytes(&bytes) {
            Err(e) => viol(st, "round-trip", "round-trip", format!("own encoding rejected: {:?}", e)),
            Ok(p2) => {
                let b2 = p2.to_bytes().unwrap_or_default();
                if b2 != bytes {
                    viol(st, "round-trip", "round-trip", "decode(encode(p)) re-encodes differently".into());
                }
                let bp = gens_with_history::<G>(&sc.cap_v, 1);
                let v1 = run_verifier::<G>(&sc.st, &pr.commitments, proof, &bp, false);
                let v2 = run_verifier::<G>(&sc.st, &pr.commitments, &p2, &bp, false);
                if v1.accepted() != v2.accepted() || !v1.accepted() {
                    viol(st, "round-trip-verdict", "round-trip", format!("verdict before {} / after {}", v1.describe(), v2.describe()));
                }
                match ProofFields::<G>::parse(&bytes) {
                    Ok(pf) => {
                        if pf.l.len() != k || pf.r.len() != k || pf.encode() != bytes {
                            viol(st, "layout", "round-trip", format!("RefCodec reads k={} / {} or re-encodes differently", pf.l.len(), pf.r.len()));
                        }
                    }
                    Err(e) => viol(st, "layout", "round-trip", format!("RefCodec cannot parse: {}", e)),
                }
            }
        }
        st.steps += 3;
    }
    // F2: every strict prefix
    if want("prefix") {
        for n in 0..bytes.len() {
            st.fault("F2-torn-write-prefix");
            if let Err(e) = is_format_error::<G>(&bytes[..n]) {
                viol(st, "prefix-rejected", "prefix", format!("prefix of {} / {} bytes: {}", n, bytes.len(), e));
                break;
            }
        }
        st.count("prefixes_checked", bytes.len() as u64);
        st.steps += bytes.len() as u64;
    }
    let lay = layout::<G>(k, k);
    let mut rng = rng_from_u64(case.ext_seed, "c11");
    // non-canonical scalars in every scalar slot
    if want("scalar") {
        let mut slots: Vec<(usize, usize)> = lay.scs.clone();
        slots.push(lay.a);
        slots.push(lay.b);
        for (name, enc) in bad_scalars::<G>(&mut rng) {
            for (si, (lo, hi)) in slots.iter().enumerate() {
                st.fault("F13-noncanonical-scalar");
                let mut b = bytes.clone();
                b[*lo..*hi].copy_from_slice(&enc[..hi - lo]);
                if let Err(e) = is_format_error::<G>(&b) {
                    viol(st, "noncanonical-scalar-rejected", "scalar", format!("scalar slot {} := {}: {}", crate::tamper::SC_SLOT_NAMES[si], name, e));
                }
                st.steps += 1;
            }
        }
    }
    // invalid points in every point slot
    if want("point") {
        let mut slots: Vec<(usize, usize)> = lay.pts.clone();
        slots.extend(lay.l.iter());
        slots.extend(lay.r.iter());
        let mut bads = bad_points::<G>(&mut rng);
        if case.curve == Curve::Ed {
            bads.extend(torsion_points(&mut rng));
        }
        for (name, enc) in bads {
            for (pi, (lo, hi)) in slots.iter().enumerate() {
                st.fault(if name.starts_with("P+T") || name.starts_with("small-order") { "F13-point-outside-subgroup" } else { "F13-invalid-point" });
                let mut b = bytes.clone();
                b[*lo..*hi].copy_from_slice(&enc);
                if let Err(e) = is_format_error::<G>(&b) {
                    viol(st, "invalid-point-rejected", "point", format!("point slot #{} := {}: {}", pi, name, e));
                }
                st.steps += 1;
            }
            st.probe(&format!("bad-point:{}", name.split(':').next().unwrap_or("")));
        }
    }
    // pairs of points shifted by T and -T (the torsion components cancel in any
    // aggregate check): every pair of point slots x orders 2, 4, 8
    if want("point-pair") && case.curve == Curve::Ed {
        use ark_curve25519::{EdwardsAffine as A, EdwardsProjective as P};
        let tors = torsion_points(&mut rng);
        let mut slots: Vec<(usize, usize)> = lay.pts.clone();
        slots.extend(lay.l.iter());
        slots.extend(lay.r.iter());
        // the bare small-order points T2, T4, T8 are entries 0, 2, 4 of `tors`
        for ti in [0usize, 2, 4] {
            let Some((name, tenc)) = tors.get(ti) else { continue };
            let Ok(t) = dec_point_unchecked(tenc) else { continue };
            for i in 0..slots.len() {
                for j in (i + 1)..slots.len() {
                    let (pi, pj) = (dec_point_unchecked(&bytes[slots[i].0..slots[i].1]), dec_point_unchecked(&bytes[slots[j].0..slots[j].1]));
                    let (Ok(pi), Ok(pj)) = (pi, pj) else { continue };
                    let a: A = (P::from(pi) + P::from(t)).into_affine();
                    let b2: A = (P::from(pj) - P::from(t)).into_affine();
                    let mut b = bytes.clone();
                    b[slots[i].0..slots[i].1].copy_from_slice(&enc_point(&a));
                    b[slots[j].0..slots[j].1].copy_from_slice(&enc_point(&b2));
                    st.fault("F13-point-pair-cancelling-torsion");
                    st.steps += 1;
                    if let Err(e) = is_format_error::<G>(&b) {
                        viol(st, "invalid-point-rejected", "point-pair", format!("point slots #{} and #{} shifted by +T and -T ({}): {}", i, j, name, e));
                        break;
                    }
                }
            }
        }
        st.probe("bad-point:cancelling-pairs");
    }
    // F14 stream faults (a subset; C08 enumerates offsets)
    if want("stream") {
        for fault in [StreamFault::Short { chunk: 1 }, StreamFault::Interrupted { every: 3, chunk: 5 }, StreamFault::ErrorAt { at: bytes.len() - 1 }, StreamFault::EofAt { at: bytes.len() / 2 }] {
            st.fault(fault.kind());
            let mut w = FaultyWriter::new(fault.clone());
            let r = proof.serialize_compressed(&mut w);
            if fault.benign() && (r.is_err() || w.out != bytes) {
                viol(st, "benign-stream-fault-transparent", "stream", format!("{:?} on write", fault));
            }
            if !fault.benign() && r.is_ok() {
                viol(st, "failed-write-reports-error", "stream", format!("{:?}: serialize reported Ok after a failed write", fault));
            }
            let mut rd = FaultyReader::new(&bytes, fault.clone());
            let r = R1CSProof::<G>::deserialize_compressed(&mut rd);
            if fault.benign() != r.is_ok() {
                viol(st, "stream-read", "stream", format!("{:?} on read: ok={}", fault, r.is_ok()));
            }
            st.steps += 2;
        }
    }
    st.distinct(&format!("{}|{}|{}", case.curve.name(), case.n1, case.n2));
    st.log_digest(run, &bytes);
    st.sample(run, json!({"curve": case.curve.name(), "gates": [case.n1, case.n2], "k": k, "encoded_len": bytes.len(), "prefixes": bytes.len()}));
}

pub fn case_for(seed: u64, tier: Tier, run: u64) -> Case {
    let gmax = tier.pick(33u64, 130);
    let per_curve = (gmax + 1) * 2;
    let curve = CURVES[((run / per_curve) % 3) as usize];
    let r = run % per_curve;
    let g = (r / 2) as usize;
    let two = r % 2 == 1;
    let (n1, n2) = if two && g > 0 { (g / 2, g - g / 2) } else { (g, 0) };
    Case { curve, n1, n2, ext_seed: derive_seed(seed, "C11", run, "ext"), only: None }
}

pub fn run(ctx: &Ctx) -> i32 {
    let gmax = ctx.tier.pick(33u64, 130);
    let n = scaled((gmax + 1) * 2 * 3);
    let stats = par_run(n, ctx.workers, |i, st| {
        let i2 = if n < (gmax + 1) * 6 { i * ((gmax + 1) * 6 / n) } else { i };
        let case = case_for(ctx.seed, ctx.tier, i2);
        with_curve!(case.curve, G, run_case::<G>(i, &case, st));
    });
    finish(
        ctx,
        stats,
        Report {
            level: "fault_enumeration",
            rule: "for proofs of every gate count 0..gmax (one- and two-phase, three curves): encode twice, decode, re-encode, verdict before/after, size law, RefCodec field-by-field; then EVERY strict prefix (torn write), every scalar slot overwritten by p, p+1, 2^256-1 and by values with each bit above the modulus size set, every point slot overwritten by a coordinate with no curve point, by both flag bits, and on curve25519 by small-order points and P+T for T of order 2, 4, 8; stream faults on reader and writer. Rejections must be FormatError from from_bytes. distinct by (curve, n1, n2)".into(),
            exhaustive: true,
            assumptions: {
                let mut a = base_assumptions();
                a.push("exhaustive refers to prefixes and slots of each proof; proofs are one per (curve, gate count, phase kind)".into());
                a
            },
            real_components: REAL.to_vec(),
            simulated_components: vec!["torn-write channel", "RefCodec layout model", "Read/Write fault wrappers", "invalid-element constructor (torsion points via r*R)"],
            extra: json!({"gate_counts": format!("0..={}", gmax)}),
        },
    )
}

pub fn replay(case: &Value) -> Vec<Violation> {
    let case: Case = serde_json::from_value(case.clone()).expect("case json");
    let mut st = Stats::default();
    with_curve!(case.curve, G, run_case::<G>(0, &case, &mut st));
    st.violations
}
