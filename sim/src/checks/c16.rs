//! C16 prover and verifier assign identical variables — replicas in lockstep.
use super::*;
use crate::interp::*;
use crate::with_curve;
use ark_bulletproofs::r1cs::{Prover, Verifier};
use merlin::Transcript;
use serde_json::json;
use std::cell::RefCell;
use std::rc::Rc;

#[derive(Clone, Debug, Serialize, Deserialize)]
pub struct Case {
    pub st: Statement,
    /// F15: the prover is given no assignment at these calls (prover-only run)
    pub missing: bool,
    /// also prove and verify (needed to execute phase 2 on both roles)
    pub full: bool,
    pub ext_seed: u64,
}

/// History generator biased toward the pending-allocation rule.
fn gen_history<F: PrimeField>(rng: &mut Rng, curve: Curve, missing: bool, with_blocks: bool) -> Statement {
    let mut ops: Vec<Op> = vec![];
    let mut sym = RefCS::<F>::new(false);
    let n = 1 + below(rng, 60);
    let lit = |rng: &mut Rng| Val::Lit(S::U(rand_core::RngCore::next_u64(rng) % 7));
    let simple = |rng: &mut Rng, sym: &RefCS<F>| -> Expr {
        if sym.table.is_empty() || chance(rng, 1, 6) {
            Expr::K(S::U(3))
        } else if chance(rng, 1, 3) {
            Expr::sub(Expr::V(below(rng, sym.table.len())), Expr::V(below(rng, sym.table.len())))
        } else {
            Expr::V(below(rng, sym.table.len()))
        }
    };
    let mut emit = |ops: &mut Vec<Op>, sym: &mut RefCS<F>, op: Op| {
        gen::sym_apply(sym, &op);
        ops.push(op);
    };
    let mut blocks = 0;
    for _ in 0..n {
        match below(rng, 20) {
            0 => emit(&mut ops, &mut sym, Op::Commit { v: S::U(2), r: S::U(5) }),
            1..=7 => {
                // runs of single allocations of odd and even length
                for _ in 0..(1 + below(rng, 4)) {
                    let op = Op::Alloc(Some(lit(rng)));
                    emit(&mut ops, &mut sym, op);
                }
            }
            8 | 9 | 10 => {
                let op = Op::AllocMul(Some((lit(rng), lit(rng))));
                emit(&mut ops, &mut sym, op);
            }
            11 | 12 | 13 => {
                let op = Op::Mul(simple(rng, &sym), simple(rng, &sym));
                emit(&mut ops, &mut sym, op);
            }
            14 | 15 => {
                let op = Op::Constrain(simple(rng, &sym));
                emit(&mut ops, &mut sym, op);
            }
            16 if missing => {
                // F15: missing assignment (no table entry results)
                let op = if chance(rng, 2, 3) { Op::Alloc(None) } else { Op::AllocMul(None) };
                ops.push(op);
            }
            17 | 18 if with_blocks && blocks < 5 => {
                blocks += 1;
                ops.push(Op::Randomized(vec![]));
            }
            _ => {}
        }
    }
    if with_blocks && blocks > 0 {
        sym.begin_phase2();
        for i in 0..ops.len() {
            if !matches!(ops[i], Op::Randomized(_)) {
                continue;
            }
            let mut body = vec![];
            let m = below(rng, 8);
            if chance(rng, 1, 2) {
                let op = Op::Challenge { label: 5 };
                gen::sym_apply(&mut sym, &op);
                body.push(op);
            }
            for _ in 0..m {
                let op = match below(rng, 8) {
                    0..=3 => Op::Alloc(Some(lit(rng))),
                    4 => Op::AllocMul(Some((lit(rng), lit(rng)))),
                    5 => Op::Mul(simple(rng, &sym), simple(rng, &sym)),
                    6 if missing => Op::Alloc(None),
                    _ => Op::Constrain(Expr::Empty),
                };
                if !matches!(op, Op::Alloc(None)) {
                    gen::sym_apply(&mut sym, &op);
                }
                body.push(op);
            }
            ops[i] = Op::Randomized(body);
        }
    }
    Statement {
        curve,
        tlabel: 0,
        pre: vec![],
        bases: Bases::Default,
        ops,
    }
}

fn pc_cached<G: AffineRepr>() -> ark_bulletproofs::PedersenGens<G> {
    // PedersenGens::default() costs a hash-to-curve; cache per curve
    use std::any::{Any, TypeId};
    use std::collections::HashMap;
    use std::sync::{Mutex, OnceLock};
    static C: OnceLock<Mutex<HashMap<TypeId, Box<dyn Any + Send + Sync>>>> = OnceLock::new();
    let m = C.get_or_init(|| Mutex::new(HashMap::new()));
    let mut g = m.lock().unwrap();
    let e = g
        .entry(TypeId::of::<G>())
        .or_insert_with(|| Box::new(ark_bulletproofs::PedersenGens::<G>::default()));
    *e.downcast_ref::<ark_bulletproofs::PedersenGens<G>>().unwrap()
}

pub fn run_case<G: AffineRepr>(run: u64, case: &Case, st: &mut Stats) {
    st.eval();
    let viol = |st: &mut Stats, oracle: &str, detail: String| {
        st.violate(Violation {
            run,
            oracle: oracle.into(),
            signature: format!("{}:{}", oracle, if case.missing { "F15" } else { "plain" }),
            detail,
            case: to_value(case),
        });
    };
    if case.missing {
        st.fault("F15-missing-assignment");
    }
    if !case.full {
        // handles only: drive both roles through phase 1, no proof
        let pc = pc_cached::<G>();
        let shp = Rc::new(RefCell::new(Shared::new(Role::Prover)));
        let mut tp = Transcript::new(b"c16");
        let r = catch(|| {
            let mut p = Prover::new(&pc, &mut tp);
            drive_prover(&mut p, &case.st.ops, &shp)
        });
        let commitments = match r {
            Ok(c) => c,
            Err(m) => {
                viol(st, "no-panic", format!("prover role panicked: {}", m));
                return;
            }
        };
        let p = shp.borrow();
        st.steps += p.steps as u64;
        if let Some(d) = &p.diverged {
            viol(st, "prover-vs-model", d.clone());
            return;
        }
        let expected_missing = case
            .st
            .ops
            .iter()
            .filter(|o| matches!(o, Op::Alloc(None) | Op::AllocMul(None)))
            .count();
        if p.missing_reported != expected_missing {
            viol(st, "missing-assignment-error", format!("{} MissingAssignment errors for {} absent assignments", p.missing_reported, expected_missing));
            return;
        }
        if expected_missing > 0 {
            st.probe("missing-assignment-reported");
        }
        for (k, v) in &p.model.probes {
            st.probe_n(k, *v);
        }
        if !case.missing {
            let shv = Rc::new(RefCell::new(Shared::new(Role::Verifier)));
            let mut tv = Transcript::new(b"c16");
            let r = catch(|| {
                let mut v = Verifier::<G, _>::new(&mut tv);
                drive_verifier(&mut v, &case.st.ops, &commitments, &shv);
            });
            if let Err(m) = r {
                viol(st, "no-panic", format!("verifier role panicked: {}", m));
                return;
            }
            let v = shv.borrow();
            st.steps += v.steps as u64;
            if let Some(d) = &v.diverged {
                viol(st, "verifier-vs-model", d.clone());
                return;
            }
            if p.table != v.table || p.events != v.events {
                viol(st, "prover-vs-verifier", "handle sequences differ between the roles".into());
                return;
            }
        }
        st.distinct(&format!("{}|{}", case.st.curve.name(), case.st.shape()));
        st.log_digest(run, p.events.join("\n").as_bytes());
        st.sample(run, json!({"curve": case.st.curve.name(), "history": case.st.shape(), "missing_fault": case.missing, "handles": p.events.iter().take(12).collect::<Vec<_>>()}));
        return;
    }
    // F15 inside a randomized closure: the closure propagates the error the
    // way a gadget would; prove() must then return MissingAssignment
    if case.full && case.missing {
        let (_, _, _, padded) = shape_of(&case.st);
        let bp = gens_with_history::<G>(&[padded + 8], 1);
        let pc = pc_cached::<G>();
        let sh = Rc::new(RefCell::new(Shared::new(Role::Prover)));
        sh.borrow_mut().propagate_missing = true;
        let mut t = Transcript::new(b"c16");
        let mut ext = CountingRng::new(case.ext_seed, RngMode::Normal);
        let r = catch(|| {
            let mut p = Prover::new(&pc, &mut t);
            drive_prover(&mut p, &case.st.ops, &sh);
            p.prove(&mut ext, &bp).map(|_| ())
        });
        let s = sh.borrow();
        st.steps += s.steps as u64;
        let missing_in_block = case.st.ops.iter().any(|o| matches!(o, Op::Randomized(b) if b.iter().any(|x| matches!(x, Op::Alloc(None) | Op::AllocMul(None)))));
        match r {
            Err(m) => viol(st, "no-panic", format!("prover panicked: {}", m)),
            Ok(res) => {
                if let Some(d) = &s.diverged {
                    viol(st, "prover-vs-model", d.clone());
                } else if missing_in_block && res != Err(ark_bulletproofs::r1cs::R1CSError::MissingAssignment) {
                    viol(st, "missing-assignment-error", format!("an assignment is absent inside a randomized closure (which returned the error), but prove() returned {:?}", res));
                } else {
                    st.probe("phase2-missing-assignment-surfaces-from-prove");
                    st.distinct(&format!("p2missing|{}|{}", case.st.curve.name(), case.st.shape()));
                }
            }
        }
        return;
    }
    // full session: phase 2 executes inside prove / verify
    let (_, _, _, padded) = shape_of(&case.st);
    let sc = SessionCase {
        st: case.st.clone(),
        cap_p: vec![padded],
        cap_v: vec![padded],
        ext_seed: case.ext_seed,
    };
    let bp = gens_with_history::<G>(&sc.cap_p, 1);
    let out = run_prover::<G>(&sc.st, &bp, &ProverCfg { ext_seed: sc.ext_seed, ext_mode: RngMode::Normal, record: false });
    let p = out.shared.borrow();
    st.steps += p.steps as u64;
    if let Some(d) = &p.diverged {
        viol(st, "prover-vs-model", d.clone());
        return;
    }
    for (k, v) in &p.model.probes {
        st.probe_n(k, *v);
    }
    let proof = match &out.result {
        Ok(pf) => pf,
        Err(Ok(e)) => {
            viol(st, "prove-ok", format!("{:?}", e));
            return;
        }
        Err(Err(m)) => {
            viol(st, "no-panic", format!("prove panicked: {}", m));
            return;
        }
    };
    let v = run_verifier::<G>(&sc.st, &out.commitments, proof, &bp, false);
    let vs = v.shared.borrow();
    st.steps += vs.steps as u64;
    if let Some(d) = &vs.diverged {
        viol(st, "verifier-vs-model", d.clone());
        return;
    }
    if p.table != vs.table {
        viol(st, "prover-vs-verifier", format!("handle tables differ: prover {} entries, verifier {}", p.table.len(), vs.table.len()));
        return;
    }
    if p.events != vs.events {
        viol(st, "prover-vs-verifier", "call-by-call event logs differ".into());
        return;
    }
    if p.model.gates != vs.model.gates || p.model.n1() != vs.model.n1() {
        viol(st, "gate-counts", "gate counts differ".into());
        return;
    }
    // the open gate is closed with (l, 0, 0): the model's closing values must
    // make an honest proof verify when nothing else is constrained wrongly
    if p.model.satisfied() && !v.accepted() {
        viol(st, "closing-values", format!("model-satisfied history rejected: {}", v.describe()));
        return;
    }
    st.probe("full-session-phase2-lockstep");
    st.distinct(&format!("full|{}|{}", case.st.curve.name(), case.st.shape()));
    st.log_digest(run, p.events.join("\n").as_bytes());
    st.sample(run, json!({"curve": case.st.curve.name(), "history": case.st.shape(), "full_session": true, "n1": p.model.n1(), "n2": p.model.n2()}));
}

pub fn case_for(seed: u64, _tier: Tier, run: u64) -> Case {
    let curve = CURVES[(run % 3) as usize];
    let mut rng = sub_rng(seed, "C16", run, "case");
    let full = run % 16 == 0 || run % 80 == 11;
    let missing = (!full && run % 5 == 1) || run % 80 == 11;
    let blocks = full || chance(&mut rng, 1, 3);
    let st = with_curve!(curve, G, gen_history::<<G as AffineRepr>::ScalarField>(&mut rng, curve, missing, blocks));
    Case {
        st,
        missing,
        full,
        ext_seed: rand_core::RngCore::next_u64(&mut rng),
    }
}

pub fn run(ctx: &Ctx) -> i32 {
    let n = scaled(ctx.tier.pick(120_000, 3_000_000));
    let stats = par_run(n, ctx.workers, |i, st| {
        let case = case_for(ctx.seed, ctx.tier, i);
        with_curve!(case.st.curve, G, run_case::<G>(i, &case, st));
    });
    finish(
        ctx,
        stats,
        Report {
            level: "exploration",
            rule: "one generated call history (<= 60 calls, biased to runs of single allocations interleaved with gates while one is pending, pending at phase boundaries, single allocation opening phase 2) is applied call by call to a real Prover, a real Verifier and RefCS; after every call the returned handles and multipliers_len must agree; 1 in 16 histories is also proved and verified so that the randomized closures execute on both roles; fault F15 removes an assignment (prover + model only). distinct by (curve, op-kind sequence)".into(),
            exhaustive: false,
            assumptions: base_assumptions(),
            real_components: REAL.to_vec(),
            simulated_components: vec!["history generator", "RefCS (handle / gate-count model)", "missing-assignment fault"],
            extra: json!({}),
        },
    )
}

pub fn replay(case: &Value) -> Vec<Violation> {
    let case: Case = serde_json::from_value(case.clone()).expect("case json");
    let mut st = Stats::default();
    with_curve!(case.st.curve, G, run_case::<G>(0, &case, &mut st));
    st.violations
}

pub fn shrink(case: &Value) -> Vec<Value> {
    let Ok(c) = serde_json::from_value::<Case>(case.clone()) else { return vec![] };
    crate::shrink::shrink_statement(&c.st).into_iter().map(|(s, _)| to_value(&Case { st: s, missing: c.missing, full: c.full, ext_seed: c.ext_seed })).collect()
}
