//! C12 generators — history independence, persistence, agreement between parties.
use super::*;
use crate::refgens;
use crate::with_curve;
use ark_bulletproofs::{BulletproofGens, PedersenGens};
use ark_serialize::{CanonicalDeserialize, CanonicalSerialize};
use serde_json::json;
use std::collections::BTreeSet;

#[derive(Clone, Debug, PartialEq, Serialize, Deserialize)]
pub enum GOp {
    Increase(usize),
    /// serialize (compressed if true) and continue on the reloaded object
    PersistReload(bool),
    /// compare all views (n, m)
    Views,
    /// clone and continue on the clone
    CloneSwap,
}

#[derive(Clone, Debug, Serialize, Deserialize)]
pub struct Case {
    pub curve: Curve,
    pub c0: usize,
    pub parties: usize,
    pub ops: Vec<GOp>,
    /// also replay the history in 8 threads and a fresh process
    pub multi: bool,
}

fn enc<G: AffineRepr>(p: &G) -> Vec<u8> {
    let mut b = vec![];
    p.serialize_compressed(&mut b).unwrap();
    b
}

/// digest of all generators of a store (party-major, G then H)
fn store_digest<G: AffineRepr>(bp: &BulletproofGens<G>) -> [u8; 32] {
    let mut all = vec![];
    for p in bp.G(bp.gens_capacity, bp.party_capacity) {
        all.extend(enc(p));
    }
    for p in bp.H(bp.gens_capacity, bp.party_capacity) {
        all.extend(enc(p));
    }
    sha3_256(&all)
}

fn check_against_ref<G: AffineRepr>(bp: &BulletproofGens<G>, cap: usize, parties: usize) -> Result<(), String> {
    if bp.gens_capacity != cap || bp.party_capacity != parties {
        return Err(format!("capacity fields ({}, {}) != expected ({}, {})", bp.gens_capacity, bp.party_capacity, cap, parties));
    }
    let g: Vec<G> = bp.G(cap, parties).cloned().collect();
    let h: Vec<G> = bp.H(cap, parties).cloned().collect();
    if g.len() != cap * parties || h.len() != cap * parties {
        return Err(format!("G/H lists have {} / {} elements, expected {}", g.len(), h.len(), cap * parties));
    }
    for j in 0..parties {
        let rg = refgens::ref_chain_cached::<G>(b'G', j as u32, cap);
        let rh = refgens::ref_chain_cached::<G>(b'H', j as u32, cap);
        for i in 0..cap {
            if g[j * cap + i] != rg[i] {
                return Err(format!("G generator (party {}, index {}) differs from RefGens", j, i));
            }
            if h[j * cap + i] != rh[i] {
                return Err(format!("H generator (party {}, index {}) differs from RefGens", j, i));
            }
        }
    }
    Ok(())
}

fn check_views<G: AffineRepr>(bp: &BulletproofGens<G>, cap: usize, parties: usize, all: bool, st: &mut Stats) -> Result<(), String> {
    let ns: Vec<usize> = if all || cap <= 12 { (0..=cap).collect() } else { vec![0, 1, 2, cap / 2, cap - 1, cap] };
    for n in ns {
        for m in 0..=parties {
            for kind in [b'G', b'H'] {
                let res = catch(|| {
                    let it = if kind == b'G' { Box::new(bp.G(n, m)) as Box<dyn Iterator<Item = &G>> } else { Box::new(bp.H(n, m)) };
                    let mut it = it;
                    let hint = it.size_hint();
                    // size_hint must stay exact at every step of the iteration
                    let mut v: Vec<G> = vec![];
                    let mut left = n * m;
                    let mut hint_ok = true;
                    while let Some(p) = it.next() {
                        v.push(*p);
                        if v.len() > n * m + 4 {
                            break;
                        }
                        left = left.saturating_sub(1);
                        if it.size_hint() != (left, Some(left)) {
                            hint_ok = false;
                        }
                    }
                    // exhausted iterators stay exhausted
                    if it.next().is_some() {
                        hint_ok = false;
                    }
                    (if hint_ok { hint } else { (usize::MAX, None) }, v)
                });
                st.steps += 1;
                let (hint, v) = match res {
                    Ok(x) => x,
                    Err(msg) => return Err(format!("view {}(n={}, m={}) on capacity {} x {} parties panicked: {}", kind as char, n, m, cap, parties, msg)),
                };
                if v.len() != n * m {
                    return Err(format!("view {}(n={}, m={}) lists {} generators, expected {} (capacity {}, parties {})", kind as char, n, m, v.len(), n * m, cap, parties));
                }
                if hint != (n * m, Some(n * m)) {
                    return Err(format!("view {}(n={}, m={}) size_hint {:?}, exact count {}", kind as char, n, m, hint, n * m));
                }
                for j in 0..m {
                    let r = refgens::ref_chain_cached::<G>(kind, j as u32, n);
                    for i in 0..n {
                        if v[j * n + i] != r[i] {
                            return Err(format!("view {}(n={}, m={}): element {} is not generator ({}, {})", kind as char, n, m, j * n + i, j, i));
                        }
                    }
                }
                if n == 0 && m >= 2 {
                    st.probe("view-n0-m>=2");
                }
            }
        }
    }
    Ok(())
}

fn run_history<G: AffineRepr>(case: &Case, st: Option<&mut Stats>) -> Result<[u8; 32], String> {
    let mut dummy = Stats::default();
    let st = match st {
        Some(s) => s,
        None => &mut dummy,
    };
    let mut bp = BulletproofGens::<G>::new(case.c0, case.parties);
    let mut cap = case.c0;
    check_against_ref::<G>(&bp, cap, case.parties)?;
    for op in &case.ops {
        st.steps += 1;
        match op {
            GOp::Increase(c) => {
                if *c <= cap {
                    st.probe("increase-below-or-at-current(no-op)");
                }
                bp.increase_capacity(*c);
                cap = cap.max(*c);
            }
            GOp::PersistReload(compressed) => {
                st.fault("F16-persist-reload");
                let mut b = vec![];
                if *compressed {
                    bp.serialize_compressed(&mut b).map_err(|e| format!("{:?}", e))?;
                    bp = BulletproofGens::<G>::deserialize_compressed(&b[..]).map_err(|e| format!("reload failed: {:?}", e))?;
                } else {
                    bp.serialize_uncompressed(&mut b).map_err(|e| format!("{:?}", e))?;
                    bp = BulletproofGens::<G>::deserialize_uncompressed(&b[..]).map_err(|e| format!("reload failed: {:?}", e))?;
                }
            }
            GOp::Views => check_views::<G>(&bp, cap, case.parties, false, st)?,
            GOp::CloneSwap => bp = bp.clone(),
        }
        check_against_ref::<G>(&bp, cap, case.parties)?;
    }
    Ok(store_digest(&bp))
}

/// distinctness / subgroup / pinned digests over the first `n` generators x 4 parties
pub fn global_facts<G: AffineRepr>(n: usize) -> Result<(String, String), String> {
    let bp = BulletproofGens::<G>::new(n, 4);
    let pc = PedersenGens::<G>::default();
    let (rb, rbb) = refgens::ref_pedersen::<G>();
    if pc.B != rb || pc.B_blinding != rbb {
        return Err("PedersenGens::default() differs from the reference derivation".into());
    }
    let mut seen = BTreeSet::new();
    let mut all = vec![];
    let mut chk = |p: &G, what: &str| -> Result<(), String> {
        if p.is_zero() {
            return Err(format!("{} is the identity", what));
        }
        use ark_ff::PrimeField as _;
        let order_ok = ark_std::Zero::is_zero(&p.mul_bigint(<G::ScalarField as ark_ff::PrimeField>::MODULUS));
        if ark_serialize::Valid::check(p).is_err() || !order_ok {
            return Err(format!("{} is not in the prime-order subgroup", what));
        }
        if !seen.insert(enc(p)) {
            return Err(format!("{} duplicates another generator", what));
        }
        Ok(())
    };
    chk(&pc.B, "B")?;
    chk(&pc.B_blinding, "B_blinding")?;
    for (i, p) in bp.G(n, 4).enumerate() {
        chk(p, &format!("G[{}][{}]", i / n, i % n))?;
        all.extend(enc(p));
    }
    for (i, p) in bp.H(n, 4).enumerate() {
        chk(p, &format!("H[{}][{}]", i / n, i % n))?;
        all.extend(enc(p));
    }
    let mut pcb = enc(&pc.B);
    pcb.extend(enc(&pc.B_blinding));
    Ok((hex(&crate::common::sha3_256(&all)), hex(&crate::common::sha3_256(&pcb))))
}

pub fn run_case<G: AffineRepr>(run: u64, case: &Case, st: &mut Stats) {
    st.eval();
    let viol = |st: &mut Stats, oracle: &str, sig: String, detail: String| {
        st.violate(Violation { run, oracle: oracle.into(), signature: sig, detail, case: to_value(case) });
    };
    let d = match catch(|| run_history::<G>(case, Some(st))) {
        Ok(Ok(d)) => d,
        Ok(Err(e)) => {
            let sig = if e.contains("view") && e.contains("n=0") { "view-n0".to_string() } else { format!("history:{}", case.curve.name()) };
            viol(st, "generators-equal-refgens", sig, e);
            return;
        }
        Err(m) => {
            viol(st, "no-panic", format!("history-panic:{}", case.curve.name()), format!("generator store panicked: {}", m));
            return;
        }
    };
    // the final store equals one built directly
    let fin = case.ops.iter().fold(case.c0, |c, o| if let GOp::Increase(x) = o { c.max(*x) } else { c });
    let direct = store_digest(&BulletproofGens::<G>::new(fin, case.parties));
    if d != direct {
        viol(st, "history-independent", format!("history-digest:{}", case.curve.name()), "store reached through the history differs from one built directly".into());
        return;
    }
    if case.multi {
        // eight threads
        let ds: Vec<Result<[u8; 32], String>> = std::thread::scope(|s| {
            let hs: Vec<_> = (0..8).map(|_| s.spawn(|| run_history::<G>(case, None))).collect();
            hs.into_iter().map(|h| h.join().unwrap_or(Err("thread panicked".into()))).collect()
        });
        if ds.iter().any(|x| x.as_ref().ok() != Some(&d)) {
            viol(st, "thread-independent", "threads".into(), "the same history gives different generators in different threads".into());
            return;
        }
        st.probe("8-threads-equal");
        // fresh process
        if let Ok(exe) = std::env::current_exe() {
            let out = std::process::Command::new(exe).arg("c12-child").arg(serde_json::to_string(case).unwrap()).env("BPSIM_CHILD", "1").output();
            match out {
                Ok(o) if o.status.success() => {
                    let got = String::from_utf8_lossy(&o.stdout).trim().to_string();
                    if got != hex(&d) {
                        viol(st, "process-independent", "process".into(), format!("fresh process digest {} != {}", got, hex(&d)));
                        return;
                    }
                    st.probe("fresh-process-equal");
                }
                _ => st.probe("fresh-process-unavailable"),
            }
        }
    }
    st.distinct(&format!("{}|{}|{}|{:?}", case.curve.name(), case.c0, case.parties, case.ops));
    st.log_digest(run, &d);
    st.sample(run, json!({"curve": case.curve.name(), "new": [case.c0, case.parties], "history": case.ops}));
}

pub fn child(arg: &str) -> i32 {
    let case: Case = match serde_json::from_str(arg) {
        Ok(c) => c,
        Err(_) => return 2,
    };
    let r = with_curve!(case.curve, G, run_history::<G>(&case, None));
    match r {
        Ok(d) => {
            println!("{}", hex(&d));
            0
        }
        Err(_) => 1,
    }
}

pub fn case_for(seed: u64, tier: Tier, run: u64) -> Case {
    let curve = CURVES[(run % 3) as usize];
    let mut rng = sub_rng(seed, "C12", run, "case");
    let capmax = tier.pick(64usize, 512);
    let parties = 1 + below(&mut rng, 4);
    let c0 = match below(&mut rng, 4) {
        0 => 0,
        1 => 1,
        _ => below(&mut rng, capmax / 2),
    };
    let nops = 1 + below(&mut rng, tier.pick(8, 20));
    let mut ops = vec![];
    let mut cur = c0;
    for _ in 0..nops {
        ops.push(match below(&mut rng, 8) {
            0 | 1 | 2 => {
                let c = match below(&mut rng, 4) {
                    0 => below(&mut rng, cur + 1),
                    1 => cur,
                    2 => cur + 1,
                    _ => cur + below(&mut rng, std::cmp::max(1, (capmax - std::cmp::min(cur, capmax - 1)) / 2)),
                };
                let c = std::cmp::min(c, capmax);
                cur = cur.max(c);
                GOp::Increase(c)
            }
            3 | 4 => GOp::PersistReload(chance(&mut rng, 1, 2)),
            5 | 6 => GOp::Views,
            _ => GOp::CloneSwap,
        });
    }
    ops.push(GOp::Views);
    Case { curve, c0, parties, ops, multi: run % 97 == 5 }
}

pub fn scripted_cases() -> Vec<Case> {
    let mut v = vec![];
    for curve in CURVES {
        // party indices beyond one byte / two bytes of the chain label
        v.push(Case { curve, c0: 2, parties: 259, ops: vec![GOp::Increase(3), GOp::PersistReload(true)], multi: false });
        // every (n, m) view incl. n = 0 on small stores
        for (c0, parties) in [(0usize, 1usize), (0, 2), (0, 3), (1, 2), (3, 3), (5, 4)] {
            v.push(Case { curve, c0, parties, ops: vec![GOp::Views, GOp::PersistReload(true), GOp::Views], multi: false });
        }
    }
    v
}

pub fn run(ctx: &Ctx) -> i32 {
    let sc = scripted_cases();
    let n = scaled(ctx.tier.pick(1500, 20000));
    let stats0 = {
        // global facts + pinned digests, per curve
        let mut s = Stats::default();
        let fx_path = format!("{}/fixtures/gens.json", std::env::var("VERIF_FIXTURES").unwrap_or_else(|_| "/verif".into()));
        let fx: Option<Value> = std::fs::read_to_string(&fx_path).ok().and_then(|t| serde_json::from_str(&t).ok());
        for curve in CURVES {
            s.eval();
            let r = with_curve!(curve, G, global_facts::<G>(256));
            match r {
                Err(e) => s.violate(Violation { run: 0, oracle: "distinct-prime-order".into(), signature: format!("global:{}", curve.name()), detail: e, case: json!({"global": curve.name()}) }),
                Ok((dg, dp)) => {
                    s.distinct(&format!("global|{}", curve.name()));
                    match &fx {
                        Some(f) => {
                            let want_g = f[curve.name()]["gens_256x4_sha3_256"].as_str().unwrap_or("");
                            let want_p = f[curve.name()]["pedersen_sha3_256"].as_str().unwrap_or("");
                            if want_g != dg || want_p != dp {
                                s.violate(Violation { run: 0, oracle: "pinned-digests".into(), signature: format!("pinned:{}", curve.name()),
                                    detail: format!("generator digests differ from those pinned from the reference revision ({} / {})", dg, dp), case: json!({"global": curve.name()}) });
                            } else {
                                s.probe("pinned-digest-match");
                            }
                        }
                        None => s.violate(Violation { run: 0, oracle: "fixtures".into(), signature: "fixtures-missing".into(), detail: format!("{} missing", fx_path), case: json!({}) }),
                    }
                }
            }
        }
        s
    };
    let mut stats = par_run(n + sc.len() as u64, ctx.workers, |i, st| {
        let case = if (i as usize) < sc.len() { sc[i as usize].clone() } else { case_for(ctx.seed, ctx.tier, i) };
        with_curve!(case.curve, G, run_case::<G>(i, &case, st));
    });
    stats.merge(stats0);
    finish(
        ctx,
        stats,
        Report {
            level: "exploration",
            rule: "generated histories of a generator store: new(c0, parties), capacity increases below/at/above the current one, persist + reload (compressed and uncompressed) continuing on the reloaded object, clones, views; after EVERY op every G/H generator of every party must equal RefGens(curve, kind, party, index) and the fields must equal the model; every (n, m) view incl. n = 0 and m = 0 must list exactly n*m generators party-major with exact size_hint; the final store equals one built directly; sampled histories are replayed in 8 threads and in a fresh process; all generators and both Pedersen bases pairwise distinct, non-identity, in the prime-order subgroup, and equal to the digests pinned from the reference revision. distinct by (curve, c0, parties, op list)".into(),
            exhaustive: false,
            assumptions: base_assumptions(),
            real_components: REAL.to_vec(),
            simulated_components: vec!["history generator", "RefGens (model)", "persist/reload through the derived (de)serialisers", "threads / fresh process replay"],
            extra: json!({}),
        },
    )
}

pub fn replay(case: &Value) -> Vec<Violation> {
    if case.get("global").is_some() {
        return vec![];
    }
    let case: Case = serde_json::from_value(case.clone()).expect("case json");
    let mut st = Stats::default();
    with_curve!(case.curve, G, run_case::<G>(0, &case, &mut st));
    st.violations
}

pub fn shrink(case: &Value) -> Vec<Value> {
    let Ok(c) = serde_json::from_value::<Case>(case.clone()) else { return vec![] };
    let mut out = vec![];
    for i in (0..c.ops.len()).rev() {
        let mut d = c.clone();
        d.ops.remove(i);
        d.multi = false;
        out.push(to_value(&d));
    }
    if c.parties > 1 {
        let mut d = c.clone();
        d.parties -= 1;
        out.push(to_value(&d));
    }
    for c0 in [0usize, 1, c.c0 / 2] {
        if c0 < c.c0 {
            let mut d = c.clone();
            d.c0 = c0;
            out.push(to_value(&d));
        }
    }
    for (i, op) in c.ops.iter().enumerate() {
        if let GOp::Increase(x) = op {
            for y in [1usize, x / 2] {
                if y < *x {
                    let mut d = c.clone();
                    d.ops[i] = GOp::Increase(y);
                    out.push(to_value(&d));
                }
            }
        }
    }
    out
}
