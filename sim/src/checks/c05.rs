//! C05 statement and context binding — misdelivery and deviated verifiers (F6, F7).
use super::*;
use crate::refsession::bases_for;
use crate::with_curve;
use ark_ec::CurveGroup;
use ark_std::UniformRand;
use serde_json::json;

#[derive(Clone, Debug, PartialEq, Serialize, Deserialize)]
pub enum Dev {
    /// identical statement delivered to a second, independent verifier (accept)
    Twin,
    CommitReblind(usize, S),
    CommitOtherValue(usize, S),
    CommitRandom(usize, u64),
    /// commitment i shifted by a point of small order (curve25519 only): a
    /// different group element with the same prime-order component
    CommitTorsion(usize, u8),
    /// verifier has one more commitment than the prover
    CommitExtra(u64),
    /// verifier has one commitment fewer than the prover
    CommitMissing,
    /// verifier has one more commitment than the prover, bit-identical to its commitment i
    CommitExtraDuplicate(usize),
    /// prover committed the same opening twice (at the end); the verifier's statement has it once
    CommitMissingDuplicate(usize),
    CommitSwap(usize, usize),
    /// constant changed in constraint `at`
    Constant((usize, Option<usize>), S),
    /// dedicated constraint over committed values; verifier's coefficient j (or
    /// the constant if None) is off by d
    CommittedCoef(Option<usize>, S),
    /// the same, but the dedicated constraint is the FIRST call on both roles and names the
    /// commitments through hand-built handles before they exist (forward references)
    CommittedCoefForward(Option<usize>, S),
    /// the verifier's FIRST call is a constraint `d * C_w = 0` naming commitment w before it
    /// exists; the prover's first call is the vacuous constraint `0 = 0` (coefficient 0 vs d)
    CommittedTermForwardOnly(usize, S),
    /// dedicated constraint with EQUAL coefficients on all commitments; the
    /// verifier's coefficient j >= 1 is off by k * 2^64 (same low 64 bits)
    CommittedCoefLow64(usize, u8),
    TLabel(usize),
    PreDrop(usize),
    PreChange(usize),
    PreAdd,
    DataDrop((usize, Option<usize>)),
    DataChange((usize, Option<usize>)),
    /// extra user data appended at the end of phase 1 / of the last block
    DataAdd(bool),
    BaseBlinding(u64),
    BaseValue(u64),
    /// the proof of an unrelated session is delivered to this verifier
    Misdelivery(Box<SessionCase>),
}

impl Dev {
    pub fn kind(&self) -> &'static str {
        match self {
            Dev::Twin => "twin",
            Dev::CommitReblind(..) => "F7-commit-reblinded",
            Dev::CommitOtherValue(..) => "F7-commit-other-value",
            Dev::CommitRandom(..) => "F7-commit-replaced",
            Dev::CommitTorsion(..) => "F7-commit-plus-small-order-point",
            Dev::CommitExtra(_) => "F7-commit-extra",
            Dev::CommitMissing => "F7-commit-missing",
            Dev::CommitExtraDuplicate(_) => "F7-commit-extra-duplicate",
            Dev::CommitMissingDuplicate(_) => "F7-commit-missing-duplicate",
            Dev::CommitSwap(..) => "F7-commit-reordered",
            Dev::Constant(..) => "F7-constant-changed",
            Dev::CommittedCoef(Some(_), _) => "F7-committed-coefficient-changed",
            Dev::CommittedCoef(None, _) => "F7-committed-constant-changed",
            Dev::CommittedCoefForward(Some(_), _) => "F7-committed-coefficient-changed(constraint precedes the commitments)",
            Dev::CommittedCoefForward(None, _) => "F7-committed-constant-changed(constraint precedes the commitments)",
            Dev::CommittedTermForwardOnly(..) => "F7-committed-term-added(verifier only, constraint precedes the commitment)",
            Dev::CommittedCoefLow64(..) => "F7-committed-coefficient-plus-multiple-of-2^64",
            Dev::TLabel(_) => "F7-transcript-label",
            Dev::PreDrop(_) => "F7-precontext-dropped",
            Dev::PreChange(_) => "F7-precontext-changed",
            Dev::PreAdd => "F7-precontext-added",
            Dev::DataDrop(_) => "F7-userdata-dropped",
            Dev::DataChange(_) => "F7-userdata-changed",
            Dev::DataAdd(false) => "F7-userdata-added-phase1",
            Dev::DataAdd(true) => "F7-userdata-added-phase2",
            Dev::BaseBlinding(_) => "F7-blinding-base",
            Dev::BaseValue(_) => "F7-value-base",
            Dev::Misdelivery(_) => "F6-misdelivery",
        }
    }
}

#[derive(Clone, Debug, Serialize, Deserialize)]
pub struct Case {
    pub base: SessionCase,
    pub dev: Dev,
}

fn append_commit(st: &Statement, v: S, r: S) -> Statement {
    let t1 = phase1_table_len(st);
    let mut s = st.clone();
    map_statement(&mut s, &|i| if i >= t1 { i + 1 } else { i });
    s.ops.push(Op::Commit { v, r });
    s
}

/// Everything the transcript binds besides the proof itself, in order.
fn bound_context<G: AffineRepr>(st: &Statement, commitments: &[G]) -> Vec<String> {
    let mut v = vec![format!("label:{}", st.tlabel), format!("bases:{:?}", st.bases)];
    for (l, d) in &st.pre {
        v.push(format!("pre:{}:{}", l, hex(d)));
    }
    let mut ci = 0;
    let mut blocks = 0;
    for op in &st.ops {
        match op {
            Op::Commit { .. } => {
                v.push(format!("V:{}", commitments.get(ci).map(|c| hex(&crate::codec::enc_point(c))).unwrap_or_default()));
                ci += 1;
            }
            Op::UserData { label, data } => v.push(format!("data1:{}:{}", label, hex(data))),
            Op::Randomized(b) => {
                blocks += 1;
                for o in b {
                    match o {
                        Op::UserData { label, data } => v.push(format!("data2:{}:{}", label, hex(data))),
                        Op::Challenge { label } => v.push(format!("chal:{}", label)),
                        _ => {}
                    }
                }
            }
            _ => {}
        }
    }
    v.push(format!("two-phase:{}", blocks > 0));
    v
}

fn data_ops(st: &Statement) -> Vec<(usize, Option<usize>)> {
    let mut v = vec![];
    for (i, op) in st.ops.iter().enumerate() {
        match op {
            Op::UserData { .. } => v.push((i, None)),
            Op::Randomized(b) => {
                for (j, o) in b.iter().enumerate() {
                    if matches!(o, Op::UserData { .. }) {
                        v.push((i, Some(j)));
                    }
                }
            }
            _ => {}
        }
    }
    v
}

/// Returns (prover statement, verifier statement, transform on commitments,
/// must_reject).  None when the deviation does not fit.
fn apply_dev<G: AffineRepr>(
    base: &Statement,
    dev: &Dev,
) -> Option<(Statement, Statement, Box<dyn Fn(&[G]) -> Vec<G>>, bool)> {
    let id: Box<dyn Fn(&[G]) -> Vec<G>> = Box::new(|c: &[G]| c.to_vec());
    let (bb, bbl) = bases_for::<G>(&base.bases);
    let m = base.n_commits();
    let mut vst = base.clone();
    match dev {
        Dev::Twin => Some((base.clone(), vst, id, false)),
        Dev::CommitReblind(i, d) => {
            if *i >= m {
                return None;
            }
            let (i, d) = (*i, d.f::<G::ScalarField>());
            if d == G::ScalarField::from(0u64) {
                return None;
            }
            Some((base.clone(), vst, Box::new(move |c: &[G]| {
                let mut v = c.to_vec();
                v[i] = (v[i].into_group() + bbl.into_group() * d).into_affine();
                v
            }), true))
        }
        Dev::CommitOtherValue(i, d) => {
            if *i >= m {
                return None;
            }
            let (i, d) = (*i, d.f::<G::ScalarField>());
            if d == G::ScalarField::from(0u64) {
                return None;
            }
            Some((base.clone(), vst, Box::new(move |c: &[G]| {
                let mut v = c.to_vec();
                v[i] = (v[i].into_group() + bb.into_group() * d).into_affine();
                v
            }), true))
        }
        Dev::CommitRandom(i, seed) => {
            if *i >= m {
                return None;
            }
            let (i, seed) = (*i, *seed);
            Some((base.clone(), vst, Box::new(move |c: &[G]| {
                let mut v = c.to_vec();
                v[i] = G::rand(&mut rng_from_u64(seed, "dev-commit"));
                v
            }), true))
        }
        Dev::CommitTorsion(i, k) => {
            if *i >= m || base.curve != Curve::Ed {
                return None;
            }
            let (i, k) = (*i, *k);
            // T = r * R for a random curve point R that is not cofactor-cleared
            let t: Option<G> = {
                use ark_ff::PrimeField;
                let mut rng = rng_from_u64(77, "torsion");
                let mut found = None;
                for _ in 0..200 {
                    let mut b = vec![0u8; crate::codec::point_size::<G>()];
                    rand_core::RngCore::fill_bytes(&mut rng, &mut b);
                    if let Ok(p) = <G as ark_serialize::CanonicalDeserialize>::deserialize_compressed_unchecked(&b[..]) {
                        let t = p.mul_bigint(<G::ScalarField as PrimeField>::MODULUS);
                        let t4 = t + t + t + t;
                        if !ark_std::Zero::is_zero(&t4) {
                            found = Some(t.into_affine());
                            break;
                        }
                    }
                }
                found
            };
            let t = t?;
            Some((base.clone(), vst, Box::new(move |c: &[G]| {
                let mut v = c.to_vec();
                let mut acc = v[i].into_group();
                for _ in 0..(1 + (k % 7)) {
                    acc += t.into_group();
                }
                v[i] = acc.into_affine();
                v
            }), true))
        }
        Dev::CommitExtra(seed) => {
            let seed = *seed;
            let v2 = append_commit(base, S::U(0), S::U(0));
            Some((base.clone(), v2, Box::new(move |c: &[G]| {
                let mut v = c.to_vec();
                v.push(if seed == 0 { G::zero() } else { G::rand(&mut rng_from_u64(seed, "dev-extra")) });
                v
            }), true))
        }
        Dev::CommitMissing => {
            let p2 = append_commit(base, S::U(77), S::U(78));
            Some((p2, vst, Box::new(|c: &[G]| c[..c.len() - 1].to_vec()), true))
        }
        Dev::CommitExtraDuplicate(i) => {
            if *i >= m {
                return None;
            }
            let i = *i;
            let v2 = append_commit(base, S::U(0), S::U(0));
            Some((base.clone(), v2, Box::new(move |c: &[G]| {
                let mut v = c.to_vec();
                v.push(c[i]);
                v
            }), true))
        }
        Dev::CommitMissingDuplicate(i) => {
            // the i-th commit op's opening, committed once more by the prover
            let (vv, rr) = base.ops.iter().filter_map(|o| if let Op::Commit { v, r } = o { Some((v.clone(), r.clone())) } else { None }).nth(*i)?;
            let p2 = append_commit(base, vv, rr);
            Some((p2, vst, Box::new(|c: &[G]| c[..c.len() - 1].to_vec()), true))
        }
        Dev::CommitSwap(i, j) => {
            if *i >= m || *j >= m || i == j {
                return None;
            }
            let (i, j) = (*i, *j);
            // must_reject decided at run time (only if the two points differ)
            Some((base.clone(), vst, Box::new(move |c: &[G]| {
                let mut v = c.to_vec();
                v.swap(i, j);
                v
            }), true))
        }
        Dev::Constant(at, d) => {
            let f = crate::faults::WFault::Constant { at: *at, d: d.clone() };
            let v2 = crate::faults::apply(base, &f, 0)?;
            if d.f::<G::ScalarField>() == G::ScalarField::from(0u64) {
                return None;
            }
            Some((base.clone(), v2, id, true))
        }
        Dev::CommittedCoef(which, d) | Dev::CommittedCoefForward(which, d) => {
            let forward = matches!(dev, Dev::CommittedCoefForward(..));
            if m == 0 {
                return None;
            }
            // constraint sum_j (j+2)*C_j - K = 0 appended to phase 1 on both sides
            let t_commit: Vec<usize> = {
                // table indices of the commits
                let mut idx = vec![];
                let mut t = 0;
                for op in &base.ops {
                    if matches!(op, Op::Commit { .. }) {
                        idx.push(t);
                    }
                    t += op_outputs(op);
                }
                idx
            };
            let mut k = G::ScalarField::from(0u64);
            let mut ci = 0;
            let mut vals = vec![];
            for op in &base.ops {
                if let Op::Commit { v, .. } = op {
                    let val: G::ScalarField = v.f();
                    vals.push(val);
                    k += G::ScalarField::from((ci + 2) as u64) * val;
                    ci += 1;
                }
            }
            let mk = |bump: Option<(Option<usize>, G::ScalarField)>| -> Op {
                let mut terms = vec![];
                for (j, t) in t_commit.iter().enumerate() {
                    let mut c = G::ScalarField::from((j + 2) as u64);
                    if let Some((Some(w), d)) = bump {
                        if w == j {
                            c += d;
                        }
                    }
                    terms.push((if forward { TermVar::Raw(VK::C(j)) } else { TermVar::V(*t) }, Coef::Lit(S::of(&c))));
                }
                let mut kk = k;
                if let Some((None, d)) = bump {
                    kk += d;
                }
                Op::Constrain(Expr::sub(Expr::Terms(terms, false), Expr::K(S::of(&kk))))
            };
            let d: G::ScalarField = d.f();
            if d == G::ScalarField::from(0u64) {
                return None;
            }
            if let Some(j) = which {
                if *j >= m || vals[*j] == G::ScalarField::from(0u64) {
                    return None;
                }
            }
            let mut p2 = base.clone();
            let mut v2 = base.clone();
            if forward {
                p2.ops.insert(0, mk(None));
                v2.ops.insert(0, mk(Some((*which, d))));
            } else {
                p2.ops.push(mk(None));
                v2.ops.push(mk(Some((*which, d))));
            }
            Some((p2, v2, id, true))
        }
        Dev::CommittedTermForwardOnly(w, d) => {
            let d_f: G::ScalarField = d.f();
            let vals: Vec<G::ScalarField> = base.ops.iter().filter_map(|op| if let Op::Commit { v, .. } = op { Some(v.f()) } else { None }).collect();
            if *w >= m || d_f == G::ScalarField::from(0u64) || vals[*w] == G::ScalarField::from(0u64) {
                return None;
            }
            let mut p2 = base.clone();
            let mut v2 = base.clone();
            p2.ops.insert(0, Op::Constrain(Expr::K(S::U(0))));
            v2.ops.insert(0, Op::Constrain(Expr::scale(Expr::Raw(VK::C(*w)), Coef::Lit(d.clone()))));
            Some((p2, v2, id, true))
        }
        Dev::CommittedCoefLow64(j, k) => {
            if m < 2 || *j == 0 || *j >= m {
                return None;
            }
            let t_commit: Vec<usize> = {
                let mut idx = vec![];
                let mut t = 0;
                for op in &base.ops {
                    if matches!(op, Op::Commit { .. }) {
                        idx.push(t);
                    }
                    t += op_outputs(op);
                }
                idx
            };
            let vals: Vec<G::ScalarField> = base.ops.iter().filter_map(|o| if let Op::Commit { v, .. } = o { Some(v.f()) } else { None }).collect();
            if vals[*j] == G::ScalarField::from(0u64) {
                return None;
            }
            let three = G::ScalarField::from(3u64);
            let kk: G::ScalarField = vals.iter().map(|v| three * v).sum();
            let two64 = G::ScalarField::from(u64::MAX) + G::ScalarField::from(1u64);
            let mk = |bump: bool| -> Op {
                let terms = t_commit
                    .iter()
                    .enumerate()
                    .map(|(i, t)| {
                        let mut c = three;
                        if bump && i == *j {
                            c += two64 * G::ScalarField::from(1 + (*k % 3) as u64);
                        }
                        (TermVar::V(*t), Coef::Lit(S::of(&c)))
                    })
                    .collect();
                Op::Constrain(Expr::sub(Expr::Terms(terms, false), Expr::K(S::of(&kk))))
            };
            let mut p2 = base.clone();
            p2.ops.push(mk(false));
            let mut v2 = base.clone();
            v2.ops.push(mk(true));
            Some((p2, v2, id, true))
        }
        Dev::TLabel(l) => {
            if *l == base.tlabel {
                return None;
            }
            vst.tlabel = *l;
            Some((base.clone(), vst, id, true))
        }
        Dev::PreDrop(i) => {
            if *i >= vst.pre.len() {
                return None;
            }
            vst.pre.remove(*i);
            Some((base.clone(), vst, id, true))
        }
        Dev::PreChange(i) => {
            if *i >= vst.pre.len() {
                return None;
            }
            vst.pre[*i].1.push(1);
            Some((base.clone(), vst, id, true))
        }
        Dev::PreAdd => {
            vst.pre.push((1, vec![9, 9]));
            Some((base.clone(), vst, id, true))
        }
        Dev::DataDrop(at) | Dev::DataChange(at) => {
            let drop = matches!(dev, Dev::DataDrop(_));
            match at.1 {
                None => match vst.ops.get_mut(at.0)? {
                    Op::UserData { data, .. } => {
                        if drop {
                            vst.ops.remove(at.0);
                        } else {
                            data.push(0);
                        }
                    }
                    _ => return None,
                },
                Some(j) => match vst.ops.get_mut(at.0)? {
                    Op::Randomized(b) => match b.get_mut(j)? {
                        Op::UserData { data, .. } => {
                            if drop {
                                b.remove(j);
                            } else if !data.is_empty() {
                                data[0] ^= 1;
                            } else {
                                data.push(0);
                            }
                        }
                        _ => return None,
                    },
                    _ => return None,
                },
            }
            Some((base.clone(), vst, id, true))
        }
        Dev::DataAdd(in_block) => {
            let op = Op::UserData { label: 2, data: vec![1, 2, 3] };
            if *in_block {
                let last = vst.ops.iter_mut().rev().find(|o| matches!(o, Op::Randomized(_)))?;
                if let Op::Randomized(b) = last {
                    b.push(op);
                }
            } else {
                vst.ops.push(op);
            }
            Some((base.clone(), vst, id, true))
        }
        Dev::BaseBlinding(seed) => {
            vst.bases = match &base.bases {
                Bases::Default | Bases::SeededBlinding(_) => Bases::SeededBlinding(*seed),
                Bases::Seeded(s) | Bases::SeededValue(s) => {
                    // keep B, change B~: express as fully seeded pair is not possible; skip
                    let _ = s;
                    return None;
                }
            };
            Some((base.clone(), vst, id, true))
        }
        Dev::BaseValue(seed) => {
            vst.bases = match &base.bases {
                Bases::Default | Bases::SeededValue(_) => Bases::SeededValue(*seed),
                _ => return None,
            };
            // demanded only with >= 1 gate; decided at run time
            Some((base.clone(), vst, id, true))
        }
        Dev::Misdelivery(_) => Some((base.clone(), vst, id, true)),
    }
}

pub fn run_case<G: AffineRepr>(run: u64, case: &Case, st: &mut Stats) {
    let Some((pst, vst, ctf, mut must_reject)) = apply_dev::<G>(&case.base.st, &case.dev) else {
        st.probe("deviation-did-not-fit");
        return;
    };
    let viol = |st: &mut Stats, oracle: &str, detail: String| {
        st.violate(Violation {
            run,
            oracle: oracle.into(),
            signature: format!("{}:{}:{}", oracle, case.dev.kind(), case.base.st.curve.name()),
            detail,
            case: to_value(case),
        });
    };
    let mut pc = case.base.clone();
    pc.st = pst;
    let (pr, _o) = match prove_case::<G>(&pc, false) {
        Ok(x) => x,
        Err(_) => {
            st.probe("no-proof(skipped)");
            return;
        }
    };
    st.steps += pr.steps;
    if !pr.satisfied {
        st.probe("base-unsatisfied(skipped)");
        return;
    }
    // the proof verifies for its own statement
    let own = deliver::<G>(&pc.st, &pr.commitments, &pr.bytes, &case.base.cap_v);
    if !own.accepted {
        st.probe("own-statement-rejected(C01)");
        return;
    }
    st.eval();
    st.steps += 2;
    // what the verifier side sees
    let (vst, vcomm, bytes) = if let Dev::Misdelivery(other) = &case.dev {
        // session B's verifier receives session A's proof
        let (n1o, _, _, _) = shape_of(&other.st);
        let _ = n1o;
        let Ok((opr, _)) = prove_case::<G>(other, false) else {
            st.probe("no-proof(skipped)");
            return;
        };
        // C05 demands rejection when the BOUND CONTEXT differs (label,
        // application data, commitments, bases, phase structure) or the
        // committed values do not satisfy the other statement.  Two sessions
        // with the same bound context whose constraint lists differ only by
        // rows that contribute nothing (e.g. `1 - 1 = 0`) have the same
        // verification equation; there is no demand then (the delivery is
        // still held to the reference relations below).
        if bound_context(&other.st, &opr.commitments) == bound_context(&pc.st, &pr.commitments) {
            must_reject = false;
            st.probe("misdelivery-same-bound-context(no-demand)");
        }
        (other.st.clone(), opr.commitments.clone(), pr.bytes.clone())
    } else {
        let vc = ctf(&pr.commitments);
        if let Dev::CommitSwap(..) = &case.dev {
            if vc == pr.commitments {
                must_reject = false;
            }
        }
        (vst, vc, pr.bytes.clone())
    };
    if let Dev::BaseValue(_) = &case.dev {
        if pr.n1 + pr.n2 == 0 {
            // outside the property's demand; still held to the C03 equality
            must_reject = false;
            st.probe("value-base-on-gate-free-circuit(no-demand)");
        }
    }
    st.fault(case.dev.kind());
    let real = deliver::<G>(&vst, &vcomm, &bytes, &case.base.cap_v);
    if real.panicked {
        viol(st, "no-panic", real.text.clone());
        return;
    }
    if matches!(case.dev, Dev::Twin) {
        if !real.accepted {
            viol(st, "identical-statement-accepted", format!("twin verifier rejected: {}", real.text));
            return;
        }
        st.probe("twin-accepted");
    } else if must_reject && real.accepted {
        viol(
            st,
            "deviated-statement-rejected",
            format!("proof accepted for a DIFFERENT statement: deviation {:?}", case.dev),
        );
        return;
    }
    // always: equality with the reference relations
    if let Some(rf) = ref_verdict::<G>(&vst, &vcomm, &bytes) {
        if rf.accept() != real.accepted {
            viol(st, "verdict-equals-relations", format!("real {} vs reference {} under deviation {:?}", real.text, rf.why(), case.dev));
            return;
        }
    }
    st.distinct(&format!("{}|{}|{}", case.base.st.curve.name(), case.base.st.shape(), case.dev.kind()));
    st.log_digest(run, &bytes);
    st.sample(run, json!({"curve": case.base.st.curve.name(), "shape": case.base.st.shape(), "deviation": case.dev.kind(), "verdict": real.text}));
}

pub fn gen_dev(rng: &mut Rng, base: &SessionCase, kn: &gen::Knobs) -> Dev {
    use rand_core::RngCore;
    let st = &base.st;
    let m = st.n_commits();
    let data = data_ops(st);
    let cons: Vec<(usize, Option<usize>)> = {
        let mut v = vec![];
        for (i, op) in st.ops.iter().enumerate() {
            match op {
                Op::Constrain(_) => v.push((i, None)),
                Op::Randomized(b) => {
                    for (j, o) in b.iter().enumerate() {
                        if matches!(o, Op::Constrain(_)) {
                            v.push((i, Some(j)));
                        }
                    }
                }
                _ => {}
            }
        }
        v
    };
    let has_block = st.ops.iter().any(|o| matches!(o, Op::Randomized(_)));
    let d = || S::U(1);
    for _ in 0..30 {
        let dev = match below(rng, 22) {
            0 => Dev::Twin,
            1 if m > 0 => Dev::CommitReblind(below(rng, m), gen_scalar_nonzero::<ark_secq256k1::Fr>(rng)),
            2 if m > 0 => Dev::CommitOtherValue(below(rng, m), gen_scalar_nonzero::<ark_secq256k1::Fr>(rng)),
            3 if m > 0 => {
                if st.curve == Curve::Ed && chance(rng, 1, 2) {
                    Dev::CommitTorsion(below(rng, m), (rng.next_u32() % 7) as u8)
                } else {
                    Dev::CommitRandom(below(rng, m), rng.next_u64())
                }
            }
            4 => Dev::CommitExtra(if chance(rng, 1, 3) { 0 } else { rng.next_u64() | 1 }),
            5 => match below(rng, 3) {
                0 if m > 0 => Dev::CommitExtraDuplicate(below(rng, m)),
                1 if m > 0 => Dev::CommitMissingDuplicate(below(rng, m)),
                _ => Dev::CommitMissing,
            },
            6 if m > 1 => {
                let i = below(rng, m);
                let j = (i + 1 + below(rng, m - 1)) % m;
                Dev::CommitSwap(i, j)
            }
            7 if !cons.is_empty() => Dev::Constant(*pick(rng, &cons), d()),
            8 if m > 1 && chance(rng, 1, 2) => Dev::CommittedCoefLow64(1 + below(rng, m - 1), (rng.next_u32() % 3) as u8),
            8 | 9 if m > 0 && chance(rng, 1, 4) => Dev::CommittedTermForwardOnly(below(rng, m), gen_scalar_nonzero::<ark_secq256k1::Fr>(rng)),
            8 | 9 if m > 0 && chance(rng, 1, 3) => Dev::CommittedCoefForward(if chance(rng, 1, 2) { Some(below(rng, m)) } else { None }, gen_scalar_nonzero::<ark_secq256k1::Fr>(rng)),
            8 | 9 if m > 0 => Dev::CommittedCoef(if chance(rng, 1, 2) { Some(below(rng, m)) } else { None }, gen_scalar_nonzero::<ark_secq256k1::Fr>(rng)),
            10 => Dev::TLabel((st.tlabel + 1 + below(rng, TLABELS.len() - 1)) % TLABELS.len()),
            11 if !st.pre.is_empty() => Dev::PreDrop(below(rng, st.pre.len())),
            12 if !st.pre.is_empty() => Dev::PreChange(below(rng, st.pre.len())),
            13 => Dev::PreAdd,
            14 if !data.is_empty() => Dev::DataDrop(*pick(rng, &data)),
            15 if !data.is_empty() => Dev::DataChange(*pick(rng, &data)),
            16 => Dev::DataAdd(false),
            17 if has_block => Dev::DataAdd(true),
            18 => Dev::BaseBlinding(rng.next_u64()),
            19 => Dev::BaseValue(rng.next_u64()),
            20 | 21 => {
                let mut other = gen_session_case(rng, st.curve, kn);
                // keep the bases equal so that only the statement differs
                other.st.bases = st.bases.clone();
                if chance(rng, 1, 4) {
                    // identical twin session: must be accepted
                    other = base.clone();
                }
                Dev::Misdelivery(Box::new(other))
            }
            _ => continue,
        };
        return dev;
    }
    Dev::Twin
}

pub fn case_for(seed: u64, tier: Tier, run: u64) -> Case {
    let curve = CURVES[(run % 3) as usize];
    let mut rng = sub_rng(seed, "C05", run, "case");
    let mut kn = tier.pick(gen::Knobs::quick(), gen::Knobs::thorough());
    kn.max_gates = tier.pick(9, 24);
    let base = gen_session_case(&mut rng, curve, &kn);
    let dev = gen_dev(&mut rng, &base, &kn);
    Case { base, dev }
}

pub fn run(ctx: &Ctx) -> i32 {
    let n = scaled(ctx.tier.pick(5000, 150_000));
    let stats = par_run(n, ctx.workers, |i, st| {
        let case = case_for(ctx.seed, ctx.tier, i);
        with_curve!(case.base.st.curve, G, run_case::<G>(i, &case, st));
    });
    finish(
        ctx,
        stats,
        Report {
            level: "exploration",
            rule: "an accepted proof is delivered to a verifier whose statement or context deviates in exactly one way (commitment re-blinded / other value / replaced / extra / missing / reordered; constant or coefficient of a constraint over committed values; transcript label; pre-context or in-circuit application data changed / dropped / added in phase 1 or 2; blinding base; value base with >= 1 gate) or to the verifier of another session (misdelivery), and twin verifiers with the identical statement; deviation => reject, identical => accept, and always verdict == reference relations. distinct by (curve, op sequence, deviation kind)".into(),
            exhaustive: false,
            assumptions: base_assumptions(),
            real_components: REAL.to_vec(),
            simulated_components: vec!["verifier-side statement deviator", "misdelivering channel", "RefVerifier (model)"],
            extra: json!({}),
        },
    )
}

pub fn replay(case: &Value) -> Vec<Violation> {
    let case: Case = serde_json::from_value(case.clone()).expect("case json");
    let mut st = Stats::default();
    with_curve!(case.base.st.curve, G, run_case::<G>(0, &case, &mut st));
    st.violations
}

/// Apply a deviation to a statement and commitment list (used by C18 for the
/// recorded wrong statements).  Returns the verifier-side view.
pub fn deviate<G: AffineRepr>(case: &Case, commitments: &[G]) -> Option<(Statement, Vec<G>)> {
    let (_p, v, ctf, _m) = apply_dev::<G>(&case.base.st, &case.dev)?;
    Some((v, ctf(commitments)))
}

pub fn shrink(case: &Value) -> Vec<Value> {
    use crate::shrink::follow_at;
    let Ok(c) = serde_json::from_value::<Case>(case.clone()) else { return vec![] };
    let mut out = vec![];
    for (b, removed) in shrink_session(&c.base) {
        let dev = match (&c.dev, removed) {
            (Dev::Constant(at, d), Some(r)) => match follow_at(*at, r) { Some(a) => Dev::Constant(a, d.clone()), None => continue },
            (Dev::DataDrop(at), Some(r)) => match follow_at(*at, r) { Some(a) => Dev::DataDrop(a), None => continue },
            (Dev::DataChange(at), Some(r)) => match follow_at(*at, r) { Some(a) => Dev::DataChange(a), None => continue },
            (d, _) => d.clone(),
        };
        out.push(to_value(&Case { base: b, dev }));
    }
    if let Dev::Misdelivery(o) = &c.dev {
        for (b, _) in shrink_session(o) {
            out.push(to_value(&Case { base: c.base.clone(), dev: Dev::Misdelivery(Box::new(b)) }));
        }
    }
    out
}
