//! C09 hiding — the RNG seam: keying, role attribution by single-draw fault
//! injection, algebraic opening against RefProver, independence across proofs.
use super::*;
use crate::codec::*;
use crate::refgens;
use crate::refprover::{ref_prove, Nonces};
use crate::refsession::bases_for;
use crate::with_curve;
use ark_ec::CurveGroup;
use ark_ff::BigInteger;
use ark_serialize::CanonicalSerialize;
use ark_std::{UniformRand, Zero};
use merlin::sim::Op as MOp;
use rand_core::RngCore;
use serde_json::json;
use std::collections::BTreeMap;

#[derive(Clone, Debug, Serialize, Deserialize)]
pub struct Case {
    pub base: SessionCase,
    pub mode: RngMode,
    /// attribute roles by perturbing every draw (expensive) or only check keying/independence
    pub attribute: bool,
}

struct ReplayRng<'a> {
    fills: &'a [Vec<u8>],
    idx: usize,
    exhausted: bool,
}
impl<'a> RngCore for ReplayRng<'a> {
    fn next_u32(&mut self) -> u32 {
        let mut b = [0u8; 4];
        self.fill_bytes(&mut b);
        u32::from_le_bytes(b)
    }
    fn next_u64(&mut self) -> u64 {
        let mut b = [0u8; 8];
        self.fill_bytes(&mut b);
        u64::from_le_bytes(b)
    }
    fn fill_bytes(&mut self, dest: &mut [u8]) {
        if self.idx >= self.fills.len() || self.fills[self.idx].len() != dest.len() {
            self.exhausted = true;
            for d in dest.iter_mut() {
                *d = 0;
            }
            return;
        }
        dest.copy_from_slice(&self.fills[self.idx]);
        self.idx += 1;
    }
    fn try_fill_bytes(&mut self, dest: &mut [u8]) -> Result<(), rand_core::Error> {
        self.fill_bytes(dest);
        Ok(())
    }
}

#[derive(Clone, Debug)]
struct Draw<F> {
    start: usize,
    end: usize,
    value: F,
}

fn replay_draws<F: PrimeField>(fills: &[Vec<u8>]) -> Vec<Draw<F>> {
    let mut rr = ReplayRng { fills, idx: 0, exhausted: false };
    let mut out = vec![];
    while rr.idx < fills.len() {
        let start = rr.idx;
        let v = F::rand(&mut rr);
        if rr.exhausted {
            break;
        }
        out.push(Draw { start, end: rr.idx, value: v });
    }
    out
}

#[derive(Clone, Debug, PartialEq, Eq, PartialOrd, Ord)]
enum Role {
    BetaI1,
    BetaO1,
    Sigma1,
    SL1(usize),
    SR1(usize),
    BetaI2,
    BetaO2,
    Sigma2,
    SL2(usize),
    SR2(usize),
    Tau(usize),
}

fn field_list<G: AffineRepr>(pf: &ProofFields<G>) -> Vec<Vec<u8>> {
    let mut v: Vec<Vec<u8>> = pf.pts.iter().map(enc_point).collect();
    for s in &pf.scs {
        v.push(enc_scalar(s));
    }
    for (l, r) in pf.l.iter().zip(pf.r.iter()) {
        v.push(enc_point(l));
        v.push(enc_point(r));
    }
    v.push(enc_scalar(&pf.a));
    v.push(enc_scalar(&pf.b));
    v
}

fn prove_fields<G: AffineRepr>(case: &Case, ext_seed: u64, record: bool) -> Result<(ProofFields<G>, Vec<u8>, ProveOut<G>), String> {
    let bp = gens_with_history::<G>(&case.base.cap_p, 1);
    let out = run_prover::<G>(&case.base.st, &bp, &ProverCfg { ext_seed, ext_mode: case.mode, record });
    let proof = match &out.result {
        Ok(p) => p,
        Err(e) => return Err(format!("{:?}", e)),
    };
    let bytes = proof_bytes(proof);
    let pf = ProofFields::<G>::parse(&bytes)?;
    Ok((pf, bytes, out))
}

pub fn run_case<G: AffineRepr>(run: u64, case: &Case, st: &mut Stats) {
    type F<G> = <G as AffineRepr>::ScalarField;
    st.eval();
    let viol = |st: &mut Stats, oracle: &str, detail: String| {
        st.violate(Violation { run, oracle: oracle.into(), signature: format!("{}:{}", oracle, case.base.st.curve.name()), detail, case: to_value(case) });
    };
    if case.mode != RngMode::Normal {
        st.fault("F11-external-rng-stuck");
    }
    let (pf, bytes, out) = match prove_fields::<G>(case, case.base.ext_seed, true) {
        Ok(x) => x,
        Err(_) => {
            st.probe("no-proof(skipped)");
            return;
        }
    };
    let (n1, n2, m, vb): (usize, usize, usize, Vec<F<G>>) = {
        let sh = out.shared.borrow();
        st.steps += sh.steps as u64;
        (sh.model.n1(), sh.model.n2(), sh.model.m, sh.model.vb.clone())
    };
    let n = n1 + n2;
    let log = &out.log;
    // ---- 1. keying ------------------------------------------------------
    let builds: Vec<(usize, u64)> = log.iter().enumerate().filter_map(|(i, o)| if let MOp::BuildRng { t, r } = o { if *t == out.tid { Some((i, *r)) } else { None } } else { None }).collect();
    if builds.len() != 1 {
        viol(st, "rng-built-once-from-live-transcript", format!("{} RNG builders cloned from the proof transcript", builds.len()));
        return;
    }
    let (bpos, rid) = builds[0];
    let pos_of = |label: &[u8]| log.iter().position(|o| matches!(o, MOp::Append { t, label: l, .. } if *t == out.tid && l == label && true));
    // the count m is the last thing absorbed before the builder is cloned
    let m_pos = log.iter().enumerate().filter(|(_, o)| matches!(o, MOp::Append { t, label, msg } if *t == out.tid && label == b"m" && msg.len() == 8)).map(|(i, _)| i).last();
    let ai1_pos = pos_of(b"A_I1");
    match (m_pos, ai1_pos) {
        (Some(mp), Some(ap)) if mp < bpos && bpos < ap => {}
        _ => {
            viol(st, "rng-bound-to-transcript-state", format!("RNG builder cloned at log position {} (m at {:?}, A_I1 at {:?})", bpos, m_pos, ai1_pos));
            return;
        }
    }
    let rekeys: Vec<(&Vec<u8>, &Vec<u8>)> = log.iter().filter_map(|o| if let MOp::Rekey { r, label, witness } = o { if *r == rid { Some((label, witness)) } else { None } } else { None }).collect();
    let want_rekeys: Vec<Vec<u8>> = vb.iter().map(|b| { let mut v = vec![]; b.serialize_uncompressed(&mut v).unwrap(); v }).collect();
    if rekeys.len() != m || rekeys.iter().zip(want_rekeys.iter()).any(|((l, w), want)| l.as_slice() != b"v_blinding" || *w != want) {
        viol(st, "rng-keyed-with-blinding-factors", format!("{} rekey operations for {} commitments, or their contents differ from the blinding factors", rekeys.len(), m));
        return;
    }
    let fin: Vec<&Vec<u8>> = log.iter().filter_map(|o| if let MOp::Finalize { r, ext } = o { if *r == rid { Some(ext) } else { None } } else { None }).collect();
    if fin.len() != 1 || fin[0].len() != 32 || out.ext_bytes != 32 {
        viol(st, "rng-keyed-with-external-randomness", format!("finalize ops {}, external bytes taken {}", fin.len(), out.ext_bytes));
        return;
    }
    if case.mode == RngMode::Normal {
        let mut want = vec![0u8; 32];
        CountingRng::new(case.base.ext_seed, RngMode::Normal).fill_bytes(&mut want);
        if *fin[0] != want {
            viol(st, "rng-keyed-with-external-randomness", "the 32 bytes used to finalize the RNG are not the caller's randomness".into());
            return;
        }
    }
    st.probe("keying-ok");
    let fills: Vec<Vec<u8>> = log.iter().filter_map(|o| if let MOp::RngFill { r, out, .. } = o { if *r == rid { Some(out.clone()) } else { None } } else { None }).collect();
    let draws = replay_draws::<F<G>>(&fills);
    // ---- 4a. replayability ------------------------------------------------
    match prove_fields::<G>(case, case.base.ext_seed, false) {
        Ok((_, b2, _)) => {
            if b2 != bytes {
                viol(st, "same-randomness-same-proof", "same inputs and same external randomness gave a different proof".into());
                return;
            }
        }
        Err(e) => {
            viol(st, "same-randomness-same-proof", e);
            return;
        }
    }
    // ---- 4b. independence across external randomness ---------------------
    if case.mode == RngMode::Normal {
        if let Ok((pf2, _, _)) = prove_fields::<G>(case, case.base.ext_seed ^ 0x5555, false) {
            let (f1, f2) = (field_list(&pf), field_list(&pf2));
            for (i, (a, b)) in f1.iter().zip(f2.iter()).enumerate() {
                if a != b {
                    continue;
                }
                let allowed = (n2 == 0 && (3..6).contains(&i)) || (n == 0 && (i == 11 || i >= f1.len() - 2));
                if !allowed {
                    viol(st, "fresh-randomness-fresh-components", format!("two proofs of the same statement under different external randomness share component #{} (n1={}, n2={})", i, n1, n2));
                    return;
                }
                st.probe("statement-fixed-component-equal(allowed)");
            }
            st.probe("independence-checked");
        }
    }
    st.steps += 2;
    if !case.attribute {
        st.distinct(&format!("{}|{}|{:?}|noattr", case.base.st.curve.name(), case.base.st.shape(), case.mode));
        st.log_digest(run, &bytes);
        return;
    }
    // ---- 2. role attribution by single-draw fault injection --------------
    let (_bb, bbl) = bases_for::<G>(&case.base.st.bases);
    let padded = std::cmp::max(1, n.next_power_of_two());
    let gs = refgens::ref_chain_cached::<G>(b'G', 0, padded);
    let hs = refgens::ref_chain_cached::<G>(b'H', 0, padded);
    let limbs = <F<G> as PrimeField>::BigInt::NUM_LIMBS;
    let expected_roles = 3 + 2 * n1 + if n2 > 0 { 3 + 2 * n2 } else { 0 } + 5;
    if expected_roles > 90 {
        // LARGE circuit: perturbing every draw would cost one prove per draw.
        // (i) there must be at least as many RNG draws as roles;
        // (ii) a sample of draws is perturbed: each must act as delta x (B~ | G_i | H_i) or be unused;
        // (iii) opening with the draws taken in the order observed on small
        //       circuits is attempted; a match is recorded, a mismatch carries no demand.
        st.probe("large-circuit-sampled-attribution");
        if draws.len() < expected_roles {
            viol(st, "every-role-has-its-own-fresh-draw", format!("only {} scalar draws come out of the transcript RNG for {} blinding roles (n1={}, n2={})", draws.len(), expected_roles, n1, n2));
            return;
        }
        let mut table: std::collections::BTreeMap<Vec<u8>, String> = std::collections::BTreeMap::new();
        table.insert(enc_point(&bbl), "B~".into());
        for i in 0..n {
            table.insert(enc_point(&gs[i]), format!("G{}", i));
            table.insert(enc_point(&hs[i]), format!("H{}", i));
        }
        let base_fields = field_list(&pf);
        let mut srng = rng_from_u64(case.base.ext_seed, "c09-sample");
        let mut picks: Vec<usize> = vec![0, 1, 2, draws.len() - 1, draws.len() - 3];
        for _ in 0..5 {
            picks.push(below(&mut srng, draws.len()));
        }
        for k in picks {
            let d = &draws[k];
            let fill_idx = d.end - limbs;
            let mut f2 = fills.clone();
            f2[fill_idx][0] ^= 1;
            let d2 = {
                let mut rr = ReplayRng { fills: &f2, idx: d.start, exhausted: false };
                let v = F::<G>::rand(&mut rr);
                if rr.exhausted || rr.idx != d.end {
                    continue;
                }
                v
            };
            let delta = d2 - d.value;
            merlin::sim::arm_rng_fault(fill_idx as u64, vec![1]);
            let res = prove_fields::<G>(case, case.base.ext_seed, false);
            let _ = merlin::sim::disarm_rng_fault();
            st.steps += 1;
            st.fault("F11-single-draw-perturbed");
            let Ok((pfk, _, _)) = res else {
                viol(st, "perturbed-prove", format!("prove failed with draw {} perturbed", k));
                return;
            };
            let fk = field_list(&pfk);
            let Some(first) = base_fields.iter().zip(fk.iter()).position(|(a, b)| a != b) else {
                st.probe("unused-draw(allowed)");
                continue;
            };
            let ok = first < 11 && {
                let diff = pfk.pts[first].into_group() - pf.pts[first].into_group();
                match ark_ff::Field::inverse(&delta) {
                    Some(di) => table.contains_key(&enc_point(&(diff * di).into_affine())),
                    None => false,
                }
            };
            if !ok {
                viol(st, "draw-acts-as-blinding", format!("large circuit (n1={}, n2={}): perturbing RNG draw {} changes component #{} by something that is not (delta) x (blinding base or a generator)", n1, n2, k, first));
                return;
            }
        }
        // (iii) opening in the usual order
        let dv = |i: usize| draws[i].value;
        let mk = |a1: usize, a2: usize| -> Option<Nonces<F<G>>> {
            if a1 != n1 || (a2 != usize::MAX && a2 != n2) {
                return None;
            }
            let z = F::<G>::zero();
            let mut c = 0usize;
            let mut next = || {
                let v = dv(c);
                c += 1;
                v
            };
            let (bi1, bo1, s1) = (next(), next(), next());
            let sl1: Vec<_> = (0..n1).map(|_| next()).collect();
            let sr1: Vec<_> = (0..n1).map(|_| next()).collect();
            let (bi2, bo2, s2) = if n2 > 0 { (next(), next(), next()) } else { (z, z, z) };
            let sl2: Vec<_> = (0..n2).map(|_| next()).collect();
            let sr2: Vec<_> = (0..n2).map(|_| next()).collect();
            let tau = [next(), next(), next(), next(), next()];
            Some(Nonces { beta_i1: bi1, beta_o1: bo1, sigma1: s1, s_l1: sl1, s_r1: sr1, beta_i2: bi2, beta_o2: bo2, sigma2: s2, s_l2: sl2, s_r2: sr2, tau })
        };
        match ref_prove::<G>(&case.base.st, &mk) {
            Some(rp) if field_list(&rp.fields) == base_fields => st.probe("large-circuit-opened-against-refprover"),
            _ => st.probe("large-circuit-draw-order-unknown(no-demand)"),
        }
        st.distinct(&format!("large|{}|{}|{}", case.base.st.curve.name(), n1, n2));
        st.log_digest(run, &bytes);
        return;
    }
    let mut roles: BTreeMap<Role, usize> = BTreeMap::new();
    let base_fields = field_list(&pf);
    for (k, d) in draws.iter().enumerate() {
        let fill_idx = d.end - limbs;
        // the perturbed value, by replaying the perturbed stream
        let mut f2 = fills.clone();
        f2[fill_idx][0] ^= 1;
        let d2 = {
            let mut rr = ReplayRng { fills: &f2, idx: d.start, exhausted: false };
            let v = F::<G>::rand(&mut rr);
            if rr.exhausted || rr.idx != d.end {
                st.probe("perturbation-changed-acceptance(skipped)");
                continue;
            }
            v
        };
        let delta = d2 - d.value;
        merlin::sim::arm_rng_fault(fill_idx as u64, vec![1]);
        let res = prove_fields::<G>(case, case.base.ext_seed, false);
        let fired = merlin::sim::disarm_rng_fault();
        st.steps += 1;
        if !fired {
            viol(st, "fault-plan", format!("RNG fault at fill {} did not fire", fill_idx));
            return;
        }
        st.fault("F11-single-draw-perturbed");
        let Ok((pfk, _, _)) = res else {
            viol(st, "perturbed-prove", format!("prove failed with draw {} perturbed", k));
            return;
        };
        let fk = field_list(&pfk);
        let Some(first) = base_fields.iter().zip(fk.iter()).position(|(a, b)| a != b) else {
            st.probe("unused-draw(allowed)");
            continue;
        };
        if first >= 11 {
            viol(st, "draw-acts-as-blinding", format!("draw {}: first proof component that changes is #{} (not a commitment)", k, first));
            return;
        }
        let diff = pfk.pts[first].into_group() - pf.pts[first].into_group();
        let is = |x: &G| x.into_group() * delta == diff;
        let role = if is(&bbl) {
            match first {
                0 => Some(Role::BetaI1),
                1 => Some(Role::BetaO1),
                2 => Some(Role::Sigma1),
                3 => Some(Role::BetaI2),
                4 => Some(Role::BetaO2),
                5 => Some(Role::Sigma2),
                j => Some(Role::Tau(j - 6)),
            }
        } else if first == 2 {
            (0..n1).find(|i| is(&gs[*i])).map(Role::SL1).or_else(|| (0..n1).find(|i| is(&hs[*i])).map(Role::SR1))
        } else if first == 5 {
            (n1..n).find(|i| is(&gs[*i])).map(|i| Role::SL2(i - n1)).or_else(|| (n1..n).find(|i| is(&hs[*i])).map(|i| Role::SR2(i - n1)))
        } else {
            None
        };
        let Some(role) = role else {
            viol(st, "draw-acts-as-blinding", format!("draw {}: component #{} changed, but not by (delta) x (blinding base or a generator)", k, first));
            return;
        };
        // phase-1 commitments are computed before any challenge: the other two must be untouched
        if first < 3 {
            for j in 0..3 {
                if j != first && base_fields[j] != fk[j] {
                    viol(st, "no-draw-serves-two-roles", format!("draw {} ({:?}) also changes first-phase commitment #{}", k, role, j));
                    return;
                }
            }
        }
        if let Some(prev) = roles.insert(role.clone(), k) {
            viol(st, "role-map-injective", format!("draws {} and {} both act as {:?}", prev, k, role));
            return;
        }
    }
    // totality
    let mut expected: Vec<Role> = vec![Role::BetaI1, Role::BetaO1, Role::Sigma1];
    expected.extend((0..n1).map(Role::SL1));
    expected.extend((0..n1).map(Role::SR1));
    if n2 > 0 {
        expected.extend([Role::BetaI2, Role::BetaO2, Role::Sigma2]);
        expected.extend((0..n2).map(Role::SL2));
        expected.extend((0..n2).map(Role::SR2));
    }
    expected.extend((0..5).map(Role::Tau));
    for r in &expected {
        if !roles.contains_key(r) {
            viol(st, "every-role-has-its-own-fresh-draw", format!("no RNG draw acts as {:?} (n1={}, n2={}, {} draws)", r, n1, n2, draws.len()));
            return;
        }
    }
    let used: Vec<F<G>> = expected.iter().map(|r| draws[roles[r]].value).collect();
    for (i, a) in used.iter().enumerate() {
        if a.is_zero() {
            viol(st, "blinding-nonzero", format!("the draw for {:?} is zero", expected[i]));
            return;
        }
        for b in used.iter().skip(i + 1) {
            if a == b {
                viol(st, "draws-pairwise-distinct", "two roles use equal scalars".into());
                return;
            }
        }
    }
    st.probe("attribution-total-and-injective");
    // ---- 3. opening against RefProver ------------------------------------
    let dv = |r: &Role| draws[roles[r]].value;
    let mk = |a1: usize, a2: usize| -> Option<Nonces<F<G>>> {
        if a1 != n1 || (a2 != usize::MAX && a2 != n2) {
            return None;
        }
        let z = F::<G>::zero();
        Some(Nonces {
            beta_i1: dv(&Role::BetaI1),
            beta_o1: dv(&Role::BetaO1),
            sigma1: dv(&Role::Sigma1),
            s_l1: (0..n1).map(|i| dv(&Role::SL1(i))).collect(),
            s_r1: (0..n1).map(|i| dv(&Role::SR1(i))).collect(),
            beta_i2: if n2 > 0 { dv(&Role::BetaI2) } else { z },
            beta_o2: if n2 > 0 { dv(&Role::BetaO2) } else { z },
            sigma2: if n2 > 0 { dv(&Role::Sigma2) } else { z },
            s_l2: (0..n2).map(|i| dv(&Role::SL2(i))).collect(),
            s_r2: (0..n2).map(|i| dv(&Role::SR2(i))).collect(),
            tau: [dv(&Role::Tau(0)), dv(&Role::Tau(1)), dv(&Role::Tau(2)), dv(&Role::Tau(3)), dv(&Role::Tau(4))],
        })
    };
    match ref_prove::<G>(&case.base.st, &mk) {
        None => {
            viol(st, "opening", "RefProver could not follow the session (phase split differs)".into());
            return;
        }
        Some(rp) => {
            let rf = field_list(&rp.fields);
            if rp.commitments != out.commitments {
                viol(st, "opening", "commitments differ from v*B + r*B~".into());
                return;
            }
            if let Some(i) = rf.iter().zip(base_fields.iter()).position(|(a, b)| a != b) {
                viol(st, "opening", format!("proof component #{} differs from the reference prover's recomputation from (witness, challenges, attributed nonces) (n1={}, n2={})", i, n1, n2));
                return;
            }
            if rf.len() != base_fields.len() {
                viol(st, "opening", "round count differs".into());
                return;
            }
            // N = 1: the final scalars reveal l(x), r(x) directly
            if n == 1 && (rp.l_x[0] != pf.a || rp.r_x[0] != pf.b) {
                viol(st, "opening-n1", "a, b are not l(x), r(x)".into());
                return;
            }
            if n == 0 && !(pf.scs[0].is_zero() && pf.a.is_zero() && pf.b == -F::<G>::from(1u64)) {
                viol(st, "gate-free-constants", "gate-free circuit: expected t_x = 0, a = 0, b = -1".into());
                return;
            }
            st.probe("opened-against-refprover");
        }
    }
    st.distinct(&format!("{}|{}|{:?}|{}", case.base.st.curve.name(), case.base.st.shape(), case.mode, draws.len()));
    st.log_digest(run, &bytes);
    st.count("draws_attributed", draws.len() as u64);
    st.sample(run, json!({"curve": case.base.st.curve.name(), "shape": case.base.st.shape(), "n1": n1, "n2": n2, "rng_draws": draws.len(),
        "role_of_draw": roles.iter().map(|(r, k)| format!("{}:{:?}", k, r)).collect::<Vec<_>>(), "external_rng": format!("{:?}", case.mode)}));
}

pub fn case_for(seed: u64, tier: Tier, run: u64) -> Case {
    let curve = CURVES[(run % 3) as usize];
    let mut rng = sub_rng(seed, "C09", run, "case");
    let attribute = run % 4 != 3;
    let mut kn = tier.pick(gen::Knobs::quick(), gen::Knobs::thorough());
    if attribute {
        kn.max_gates = tier.pick(4, 16);
        kn.max_ops = 10;
    }
    let base = if run < 3 * gen::scripted(Curve::Secq).len() as u64 {
        c01::case_for(seed, tier, run)
    } else if run % 500 == 33 {
        // a LARGE circuit with >= 512 gates (mostly in one phase)
        let gates = 560 + below(&mut rng, 100);
        let st = with_curve!(curve, G, gen::gen_large_statement::<<G as AffineRepr>::ScalarField>(&mut rng, curve, gates));
        let (_, _, _, padded) = shape_of(&st);
        let b = SessionCase { st, cap_p: vec![padded], cap_v: vec![padded], ext_seed: rand_core::RngCore::next_u64(&mut rng) };
        return Case { base: b, mode: RngMode::Normal, attribute: true };
    } else {
        gen_session_case(&mut rng, curve, &kn)
    };
    let mode = match below(&mut rng, 8) {
        0 => RngMode::StuckZero,
        1 => RngMode::StuckPattern,
        _ => RngMode::Normal,
    };
    Case { base, mode, attribute }
}

pub fn run(ctx: &Ctx) -> i32 {
    let n = scaled(ctx.tier.pick(1200, 30_000));
    let stats = par_run(n, ctx.workers, |i, st| {
        let case = case_for(ctx.seed, ctx.tier, i);
        with_curve!(case.base.st.curve, G, run_case::<G>(i, &case, st));
    });
    finish(
        ctx,
        stats,
        Report {
            level: "exploration",
            rule: "per session the instrumented Merlin records the prover's RNG life cycle. (1) keying: one builder cloned from the live transcript after m and before A_I1, rekeyed once per commitment with that commitment's blinding factor, finalized with exactly 32 bytes of the caller's randomness. (2) role attribution by fault injection: the session is re-run once per RNG draw with that single draw perturbed; the first proof component that changes must change by (delta) x (B~ | G_i | H_i), which maps draw -> role without assuming any order; the map must be total on the expected roles, injective, with non-zero, pairwise distinct draws. (3) opening: RefProver recomputes EVERY proof component from (witness, challenges, attributed nonces) and it must equal the proof. (4) same randomness => same proof; different external randomness => no shared component except statement-fixed ones; external RNG stuck at a constant => (1)-(3) still hold. distinct by (curve, op sequence, rng mode, number of draws)".into(),
            exhaustive: false,
            assumptions: base_assumptions(),
            real_components: REAL.to_vec(),
            simulated_components: vec!["external RNG (seeded / stuck)", "transcript-RNG single-draw fault plan (vendored Merlin seam)", "RefProver, RefIpp, RefGens (models)"],
            extra: json!({}),
        },
    )
}

pub fn replay(case: &Value) -> Vec<Violation> {
    let case: Case = serde_json::from_value(case.clone()).expect("case json");
    let mut st = Stats::default();
    with_curve!(case.base.st.curve, G, run_case::<G>(0, &case, &mut st));
    st.violations
}

pub fn shrink(case: &Value) -> Vec<Value> {
    let Ok(c) = serde_json::from_value::<Case>(case.clone()) else { return vec![] };
    let mut out = vec![];
    if c.mode != RngMode::Normal {
        out.push(to_value(&Case { base: c.base.clone(), mode: RngMode::Normal, attribute: c.attribute }));
    }
    out.extend(shrink_session(&c.base).into_iter().map(|(b, _)| to_value(&Case { base: b, mode: c.mode, attribute: c.attribute })));
    out
}
