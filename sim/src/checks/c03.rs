//! C03 verdict == unbatched relations, over every kind of delivery.
use super::*;
use crate::faults::{self, WFault};
use crate::tamper::{self, Tamper};
use crate::with_curve;
use serde_json::json;

#[derive(Clone, Debug, Serialize, Deserialize)]
pub struct Case {
    pub base: SessionCase,
    pub wfault: Option<WFault>,
    pub tampers: Vec<Tamper>,
    /// adversarial prover: the reference prover run with these nonce roles
    /// forced to zero (bit i of the mask, see `adv_nonces`) and all other
    /// nonces drawn from this seed
    #[serde(default)]
    pub adversary: Option<(u32, u64)>,
}

pub fn run_case<G: AffineRepr>(run: u64, case: &Case, st: &mut Stats) {
    use ark_std::{UniformRand, Zero};
    if let Some((mask, seed)) = case.adversary {
        run_adversary::<G>(run, case, mask, seed, st);
        return;
    }
    let (n1, _, _, _) = shape_of(&case.base.st);
    let mut sc = case.base.clone();
    if let Some(f) = &case.wfault {
        match faults::apply(&case.base.st, f, n1) {
            Some(s) => {
                sc.st = s;
                st.fault(f.kind());
            }
            None => return,
        }
    }
    let (pr, _out) = match prove_case::<G>(&sc, false) {
        Ok(x) => x,
        Err(_) => {
            st.probe("no-proof(skipped)");
            return;
        }
    };
    st.steps += pr.steps + 1;
    // adversarial prover that REPAIRS relation (b) of a proof made from a
    // witness violating linear constraints: t_x' = t_x +- x^2 sum_q z^(q+1) e_q
    // (e_q = by how much constraint q is violated).  (b) then holds and (c)
    // fails through t_x' != <l, r>; a verifier that drops the t_x / a*b term
    // for some circuit shape accepts.
    if !pr.satisfied {
        let (gates_ok, errs): (bool, Vec<<G as AffineRepr>::ScalarField>) = {
            let sh = _out.shared.borrow();
            let m = &sh.model;
            ((0..m.gates).all(|i| m.a_l[i] * m.a_r[i] == m.a_o[i]), m.cons.iter().map(|c| m.eval_lin(c)).collect())
        };
        if gates_ok {
            if let Some(rf0) = ref_verdict::<G>(&sc.st, &pr.commitments, &pr.bytes) {
                let mut k = <G as AffineRepr>::ScalarField::zero();
                let mut zq = rf0.z;
                for e in &errs {
                    k += zq * e;
                    zq *= rf0.z;
                }
                k *= rf0.x * rf0.x;
                if let Ok(pf) = crate::codec::ProofFields::<G>::parse(&pr.bytes) {
                    for sign in [true, false] {
                        let mut f = pf.clone();
                        if sign { f.scs[0] += k } else { f.scs[0] -= k }
                        let fb = f.encode();
                        let Some(rf) = ref_verdict::<G>(&sc.st, &pr.commitments, &fb) else { continue };
                        if !rf.rel_b {
                            continue;
                        }
                        st.eval();
                        st.fault("adversarial-prover-repairs-relation-b");
                        st.probe("relation-b-repaired");
                        let real = deliver::<G>(&sc.st, &pr.commitments, &fb, &case.base.cap_v);
                        if !real.panicked && real.accepted != rf.accept() {
                            st.violate(Violation {
                                run,
                                oracle: "verdict-equals-relations".into(),
                                signature: format!("verdict-mismatch:repair-b:real={}", real.accepted),
                                detail: format!("proof from a witness violating a linear constraint, with t_x rewritten so that relation (b) holds: real {} vs reference {} (n1={}, n2={})", real.text, rf.why(), pr.n1, pr.n2),
                                case: to_value(case),
                            });
                        }
                    }
                }
            }
        }
    }
    // adversarial prover with knowledge of every weight derivable too early
    if case.wfault.is_none() {
        for (pos, fb) in { let all = adaptive_forgeries::<G>(&sc.st, &pr.commitments, &pr.bytes); let n = all.len(); all.into_iter().enumerate().filter(move |(i, (p, _))| *p > 1000 && (*i + (run as usize)) % 3 == 0 || *i + 10 >= n).map(|(_, x)| x) } {
            st.eval();
            st.fault("F4-adaptive-weighted-blinding-shift");
            let real = deliver::<G>(&sc.st, &pr.commitments, &fb, &case.base.cap_v);
            if let Some(rf) = ref_verdict::<G>(&sc.st, &pr.commitments, &fb) {
                if !real.panicked && real.accepted != rf.accept() {
                    st.violate(Violation {
                        run,
                        oracle: "verdict-equals-relations".into(),
                        signature: format!("verdict-mismatch:adaptive-forgery:real={}", real.accepted),
                        detail: format!("adaptive forgery (weight derivable after schedule position {}): real {} vs reference {}", pos, real.text, rf.why()),
                        case: json!({"base": case.base, "wfault": case.wfault, "tampers": [], "adaptive": true}),
                    });
                    break;
                }
            }
        }
    }
    for t in &case.tampers {
        let Some(bytes) = tamper::apply_bytes::<G>(&pr.bytes, t) else {
            continue;
        };
        st.eval();
        st.steps += 1;
        if !matches!(t, Tamper::None) {
            st.fault(t.kind());
        }
        let real = deliver::<G>(&sc.st, &pr.commitments, &bytes, &case.base.cap_v);
        if !real.decoded {
            st.probe("tampered-did-not-decode");
            continue;
        }
        let Some(rf) = ref_verdict::<G>(&sc.st, &pr.commitments, &bytes) else {
            st.probe("refcodec-rejects-what-real-decodes");
            continue;
        };
        let one = json!({"base": case.base, "wfault": case.wfault, "tampers": [t]});
        if real.panicked {
            // a panic is C08's business; C03 compares verdicts only when there is one
            st.probe("real-panicked(C08)");
            continue;
        }
        if real.accepted != rf.accept() {
            st.violate(Violation {
                run,
                oracle: "verdict-equals-relations".into(),
                signature: format!(
                    "verdict-mismatch:real={}:ref={}:{}",
                    real.accepted,
                    rf.accept(),
                    t.kind()
                ),
                detail: format!(
                    "real verifier says {} but the unbatched relations say {} [{}] for tamper {:?} (wfault {:?}, model satisfied={})",
                    real.text,
                    if rf.accept() { "accept" } else { "reject" },
                    rf.why(),
                    t,
                    case.wfault,
                    pr.satisfied
                ),
                case: one,
            });
            continue;
        }
        st.probe(&format!(
            "agree:{}:{}",
            if rf.accept() { "accept" } else { "reject" },
            if rf.accept() { "all".to_string() } else { format!("a{}b{}c{}s{}", rf.rel_a as u8, rf.rel_b as u8, rf.rel_c as u8, rf.shape_ok as u8) }
        ));
        st.distinct(&format!(
            "{}|{}|{:?}|{}|{}",
            case.base.st.curve.name(),
            case.base.st.shape(),
            case.wfault.as_ref().map(|f| f.kind()),
            t.kind(),
            rf.why()
        ));
        if matches!(t, Tamper::None) {
            st.log_digest(run, &bytes);
        }
        st.sample(
            run,
            json!({"curve": case.base.st.curve.name(), "shape": case.base.st.shape(), "witness_fault": case.wfault, "tamper": t,
                   "real": real.text, "reference": rf.why()}),
        );
    }
}

pub fn case_for(seed: u64, tier: Tier, run: u64) -> Case {
    let curve = CURVES[(run % 3) as usize];
    let mut rng = sub_rng(seed, "C03", run, "case");
    if run % 4 == 1 {
        // adversarial prover node
        use rand_core::RngCore;
        let stmt = if chance(&mut rng, 3, 4) {
            adversary_statement(curve, rng.next_u64())
        } else {
            let mut kn = gen::Knobs::quick();
            kn.max_gates = 5;
            gen_session_case(&mut rng, curve, &kn).st
        };
        let (_, _, _, padded) = shape_of(&stmt);
        let mut mask = match below(&mut rng, 4) {
            0 => 0,
            1 => 1u32 << below(&mut rng, 15),
            2 => (1u32 << below(&mut rng, 15)) | (1u32 << below(&mut rng, 15)),
            _ => (rng.next_u32()) & 0x7fff,
        };
        // bits 16..18: mass moved between (A_I1,A_I2), (A_O1,A_O2), (S1,S2) before absorption
        if chance(&mut rng, 1, 2) {
            mask = (mask & if chance(&mut rng, 1, 2) { 0 } else { 0x7fff }) | ((1 + below(&mut rng, 7) as u32) << 16);
        }
        return Case {
            base: SessionCase { st: stmt, cap_p: vec![padded], cap_v: vec![padded], ext_seed: 0 },
            wfault: None,
            tampers: vec![],
            adversary: Some((mask, rng.next_u64())),
        };
    }
    let mut kn = tier.pick(gen::Knobs::quick(), gen::Knobs::thorough());
    kn.max_gates = tier.pick(9, 33);
    let base = gen_session_case(&mut rng, curve, &kn);
    let (n1, n2, _, padded) = shape_of(&base.st);
    let wfault = if chance(&mut rng, 1, 3) {
        faults::gen_fault(&mut rng, &base.st, n1, n2)
    } else {
        None
    };
    let k = padded.trailing_zeros() as usize;
    let cat = tamper::catalogue(k, &mut rng);
    let mut tampers = vec![Tamper::None];
    let nt = tier.pick(6, 10);
    for _ in 0..nt {
        tampers.push(pick(&mut rng, &cat).clone());
    }
    Case {
        base,
        wfault,
        tampers,
        adversary: None,
    }
}

/// Statements on which individual commitments CAN legitimately be the
/// identity when the corresponding nonce is zero.
fn adversary_statement(curve: Curve, which: u64) -> Statement {
    let lit = |u: u64| Val::Lit(S::U(u));
    let ops = match which % 10 {
        // gate-free: every t_i = 0, A_I1 = beta*B~ ...
        0 => vec![Op::Commit { v: S::U(4), r: S::U(9) }, Op::Constrain(Expr::sub(Expr::V(0), Expr::K(S::U(4))))],
        // one half-open gate: a_R = a_O = 0
        1 => vec![Op::Alloc(Some(lit(5)))],
        // all wires zero
        2 => vec![Op::AllocMul(Some((lit(0), lit(0)))), Op::AllocMul(Some((lit(0), lit(0))))],
        // second phase with all-zero gates
        3 => vec![
            Op::AllocMul(Some((lit(2), lit(3)))),
            Op::Randomized(vec![Op::Challenge { label: 5 }, Op::Mul(Expr::K(S::U(0)), Expr::K(S::U(0))), Op::Mul(Expr::K(S::U(0)), Expr::K(S::U(0)))]),
        ],
        // second phase only, all-zero gates
        4 => vec![Op::Randomized(vec![Op::Challenge { label: 5 }, Op::AllocMul(Some((lit(0), lit(0))))])],
        // 2^k first-phase gates, a randomized phase that adds constraints but no gate, no padding:
        // the u-scaled block of the generators is EMPTY (the mass-move adversary's home ground)
        5 | 6 | 7 => {
            let k = 1usize << ((which / 8) % 4);
            let mut v: Vec<Op> = (0..k).map(|i| Op::AllocMul(Some((lit(2 + i as u64), lit(3))))).collect();
            v.push(Op::Randomized(vec![Op::Challenge { label: 5 }, Op::Constrain(Expr::sub(Expr::V(0), Expr::K(S::U(2))))]));
            v
        }
        // the same with a non-empty u-scaled block (padding only / second-phase gates)
        _ => {
            let k = 1 + ((which / 8) % 6) as usize;
            let mut v: Vec<Op> = (0..k).map(|i| Op::AllocMul(Some((lit(2 + i as u64), lit(3))))).collect();
            let mut blk = vec![Op::Challenge { label: 5 }, Op::Constrain(Expr::sub(Expr::V(0), Expr::K(S::U(2))))];
            if (which / 64) % 2 == 0 {
                blk.push(Op::AllocMul(Some((lit(4), lit(5)))));
            }
            v.push(Op::Randomized(blk));
            v
        }
    };
    Statement { curve, tlabel: 0, pre: vec![], bases: Bases::Default, ops }
}

/// bits: 0 beta_i1, 1 beta_o1, 2 sigma1, 3 beta_i2, 4 beta_o2, 5 sigma2, 6..10 tau_1..tau_6,
/// 11 s_L1, 12 s_R1, 13 s_L2, 14 s_R2
fn adv_nonces<F: PrimeField>(mask: u32, seed: u64, n1: usize, n2: usize) -> crate::refprover::Nonces<F> {
    let mut rng = rng_from_u64(seed, "adversary-nonces");
    let mut d = |bit: u32| -> F {
        let x = F::rand(&mut rng);
        if mask & (1 << bit) != 0 { F::zero() } else { x }
    };
    let beta_i1 = d(0);
    let beta_o1 = d(1);
    let sigma1 = d(2);
    let s_l1 = (0..n1).map(|_| d(11)).collect();
    let s_r1 = (0..n1).map(|_| d(12)).collect();
    let beta_i2 = d(3);
    let beta_o2 = d(4);
    let sigma2 = d(5);
    let s_l2 = (0..n2).map(|_| d(13)).collect();
    let s_r2 = (0..n2).map(|_| d(14)).collect();
    let tau = [d(6), d(7), d(8), d(9), d(10)];
    crate::refprover::Nonces { beta_i1, beta_o1, sigma1, s_l1, s_r1, beta_i2, beta_o2, sigma2, s_l2, s_r2, tau }
}

fn run_adversary<G: AffineRepr>(run: u64, case: &Case, mask: u32, seed: u64, st: &mut Stats) {
    type F<G> = <G as AffineRepr>::ScalarField;
    st.eval();
    st.fault("adversarial-prover-chosen-nonces");
    let stmt = &case.base.st;
    let moves: Option<[F<G>; 3]> = if mask >> 16 != 0 {
        let mut mr = rng_from_u64(seed, "adversary-mass-move");
        let mut m = [F::<G>::from(0u64); 3];
        for (b, slot) in m.iter_mut().enumerate() {
            let x = <F<G> as ark_std::UniformRand>::rand(&mut mr);
            if mask & (1 << (16 + b)) != 0 { *slot = if seed % 3 == 0 { F::<G>::from(1u64) } else { x }; }
        }
        st.fault("adversarial-prover-mass-moved-between-phase-commitments");
        Some(m)
    } else {
        None
    };
    let rp = crate::refprover::ref_prove_adv::<G>(stmt, &|n1, n2| Some(adv_nonces::<F<G>>(mask, seed, n1, if n2 == usize::MAX { 0 } else { n2 })), moves);
    let Some(rp) = rp else {
        st.probe("adversary-could-not-prove(skipped)");
        return;
    };
    let bytes = rp.fields.encode();
    let real = deliver::<G>(stmt, &rp.commitments, &bytes, &case.base.cap_v);
    if !real.decoded || real.panicked {
        st.probe(if real.panicked { "real-panicked(C08)" } else { "adversarial-proof-did-not-decode" });
        return;
    }
    let rf = crate::refsession::ref_verify::<G>(stmt, &rp.commitments, &rp.fields);
    let n_ident = rp.fields.pts.iter().filter(|p| p.is_zero()).count();
    if real.accepted != rf.accept() {
        st.violate(Violation {
            run,
            oracle: "verdict-equals-relations".into(),
            signature: format!("verdict-mismatch:adversarial-prover:real={}:ref={}", real.accepted, rf.accept()),
            detail: format!("adversarial prover (nonce mask {:#b}, {} identity points among the 11 commitments): real verifier {} but relations say {} [{}]", mask, n_ident, real.text, if rf.accept() { "accept" } else { "reject" }, rf.why()),
            case: to_value(case),
        });
        return;
    }
    if std::env::var("BPSIM_DEBUG").is_ok() {
        eprintln!("adversary mask={:#b} shape={} real={} ref={}", mask, stmt.shape(), real.text, rf.why());
    }
    st.probe(&format!("adversary:agree:{}:a{}", if rf.accept() { "accept" } else { "reject" }, rf.rel_a as u8));
    if moves.is_some() {
        let (n1, n2, _, padded) = shape_of(stmt);
        st.probe(if n1 == padded && n2 == 0 { "adversary:mass-move:u-block-empty" } else { "adversary:mass-move:u-block-non-empty" });
        if rf.accept() {
            st.probe("adversary:mass-move:accepted-by-both(!)");
        }
    }
    if n_ident > 0 {
        st.probe("adversary:identity-commitment-produced");
    }
    st.distinct(&format!("adv|{}|{}|{}|{}", stmt.curve.name(), stmt.shape(), mask, rf.why()));
}

pub fn run(ctx: &Ctx) -> i32 {
    let n = scaled(ctx.tier.pick(2500, 40000));
    let stats = par_run(n, ctx.workers, |i, st| {
        let case = case_for(ctx.seed, ctx.tier, i);
        with_curve!(case.base.st.curve, G, run_case::<G>(i, &case, st));
    });
    finish(
        ctx,
        stats,
        Report {
            level: "exploration",
            rule: "every delivery (honest, honest-from-bad-witness, field-level tampered incl. blinding/tx-ab shifts and round surgery) is judged by the real verifier and by RefVerifier (relations a, b, c computed separately, generators folded explicitly round by round, challenges re-derived by RefSchedule); non-trivial when both produced a verdict; distinct by (curve, op sequence, witness fault kind, tamper kind, which relations held)".into(),
            exhaustive: false,
            assumptions: base_assumptions(),
            real_components: REAL.to_vec(),
            simulated_components: vec!["RefVerifier / RefSchedule / RefCS / RefGens / RefCodec (models)", "channel adversary (tamper catalogue)", "prover-memory fault injector"],
            extra: json!({}),
        },
    )
}

pub fn replay(case: &Value) -> Vec<Violation> {
    let case: Case = serde_json::from_value(case.clone()).expect("case json");
    let mut st = Stats::default();
    with_curve!(case.base.st.curve, G, run_case::<G>(0, &case, &mut st));
    st.violations
}

pub fn shrink(case: &Value) -> Vec<Value> {
    let Ok(c) = serde_json::from_value::<Case>(case.clone()) else { return vec![] };
    let mut out = vec![];
    if c.wfault.is_some() {
        out.push(to_value(&Case { base: c.base.clone(), wfault: None, tampers: c.tampers.clone(), adversary: c.adversary }));
    }
    for (b, removed) in shrink_session(&c.base) {
        let wf = match &c.wfault {
            None => None,
            Some(f) => match shrink_wfault(f, removed) {
                Some(x) => Some(x),
                None => continue,
            },
        };
        out.push(to_value(&Case { base: b, wfault: wf, tampers: c.tampers.clone(), adversary: c.adversary }));
    }
    out
}
