//! C03 verdict == unbatched relations, over every kind of delivery.
use super::*;
use crate::faults::{self, WFault};
use crate::tamper::{self, Tamper};
use crate::with_curve;
use serde_json::json;

#[derive(Clone, Debug, Serialize, Deserialize)]
pub struct Case {
    pub base: SessionCase,
    pub wfault: Option<WFault>,
    pub tampers: Vec<Tamper>,
}

pub fn run_case<G: AffineRepr>(run: u64, case: &Case, st: &mut Stats) {
    let (n1, _, _, _) = shape_of(&case.base.st);
    let mut sc = case.base.clone();
    if let Some(f) = &case.wfault {
        match faults::apply(&case.base.st, f, n1) {
            Some(s) => {
                sc.st = s;
                st.fault(f.kind());
            }
            None => return,
        }
    }
    let (pr, _out) = match prove_case::<G>(&sc, false) {
        Ok(x) => x,
        Err(_) => {
            st.probe("no-proof(skipped)");
            return;
        }
    };
    st.steps += pr.steps + 1;
    for t in &case.tampers {
        let Some(bytes) = tamper::apply_bytes::<G>(&pr.bytes, t) else {
            continue;
        };
        st.eval();
        st.steps += 1;
        if !matches!(t, Tamper::None) {
            st.fault(t.kind());
        }
        let real = deliver::<G>(&sc.st, &pr.commitments, &bytes, &case.base.cap_v);
        if !real.decoded {
            st.probe("tampered-did-not-decode");
            continue;
        }
        let Some(rf) = ref_verdict::<G>(&sc.st, &pr.commitments, &bytes) else {
            st.probe("refcodec-rejects-what-real-decodes");
            continue;
        };
        let one = json!({"base": case.base, "wfault": case.wfault, "tampers": [t]});
        if real.panicked {
            // a panic is C08's business; C03 compares verdicts only when there is one
            st.probe("real-panicked(C08)");
            continue;
        }
        if real.accepted != rf.accept() {
            st.violate(Violation {
                run,
                oracle: "verdict-equals-relations".into(),
                signature: format!(
                    "verdict-mismatch:real={}:ref={}:{}",
                    real.accepted,
                    rf.accept(),
                    t.kind()
                ),
                detail: format!(
                    "real verifier says {} but the unbatched relations say {} [{}] for tamper {:?} (wfault {:?}, model satisfied={})",
                    real.text,
                    if rf.accept() { "accept" } else { "reject" },
                    rf.why(),
                    t,
                    case.wfault,
                    pr.satisfied
                ),
                case: one,
            });
            continue;
        }
        st.probe(&format!(
            "agree:{}:{}",
            if rf.accept() { "accept" } else { "reject" },
            if rf.accept() { "all".to_string() } else { format!("a{}b{}c{}s{}", rf.rel_a as u8, rf.rel_b as u8, rf.rel_c as u8, rf.shape_ok as u8) }
        ));
        st.distinct(&format!(
            "{}|{}|{:?}|{}|{}",
            case.base.st.curve.name(),
            case.base.st.shape(),
            case.wfault.as_ref().map(|f| f.kind()),
            t.kind(),
            rf.why()
        ));
        if matches!(t, Tamper::None) {
            st.log_digest(run, &bytes);
        }
        st.sample(
            run,
            json!({"curve": case.base.st.curve.name(), "shape": case.base.st.shape(), "witness_fault": case.wfault, "tamper": t,
                   "real": real.text, "reference": rf.why()}),
        );
    }
}

pub fn case_for(seed: u64, tier: Tier, run: u64) -> Case {
    let curve = CURVES[(run % 3) as usize];
    let mut rng = sub_rng(seed, "C03", run, "case");
    let mut kn = tier.pick(gen::Knobs::quick(), gen::Knobs::thorough());
    kn.max_gates = tier.pick(9, 33);
    let base = gen_session_case(&mut rng, curve, &kn);
    let (n1, n2, _, padded) = shape_of(&base.st);
    let wfault = if chance(&mut rng, 1, 3) {
        faults::gen_fault(&mut rng, &base.st, n1, n2)
    } else {
        None
    };
    let k = padded.trailing_zeros() as usize;
    let cat = tamper::catalogue(k, &mut rng);
    let mut tampers = vec![Tamper::None];
    let nt = tier.pick(6, 10);
    for _ in 0..nt {
        tampers.push(pick(&mut rng, &cat).clone());
    }
    Case {
        base,
        wfault,
        tampers,
    }
}

pub fn run(ctx: &Ctx) -> i32 {
    let n = scaled(ctx.tier.pick(2500, 80000));
    let stats = par_run(n, ctx.workers, |i, st| {
        let case = case_for(ctx.seed, ctx.tier, i);
        with_curve!(case.base.st.curve, G, run_case::<G>(i, &case, st));
    });
    finish(
        ctx,
        stats,
        Report {
            level: "exploration",
            rule: "every delivery (honest, honest-from-bad-witness, field-level tampered incl. blinding/tx-ab shifts and round surgery) is judged by the real verifier and by RefVerifier (relations a, b, c computed separately, generators folded explicitly round by round, challenges re-derived by RefSchedule); non-trivial when both produced a verdict; distinct by (curve, op sequence, witness fault kind, tamper kind, which relations held)".into(),
            exhaustive: false,
            assumptions: base_assumptions(),
            real_components: REAL.to_vec(),
            simulated_components: vec!["RefVerifier / RefSchedule / RefCS / RefGens / RefCodec (models)", "channel adversary (tamper catalogue)", "prover-memory fault injector"],
            extra: json!({}),
        },
    )
}

pub fn replay(case: &Value) -> Vec<Violation> {
    let case: Case = serde_json::from_value(case.clone()).expect("case json");
    let mut st = Stats::default();
    with_curve!(case.base.st.curve, G, run_case::<G>(0, &case, &mut st));
    st.violations
}
