//! One module per property.
use crate::common::*;
use crate::gen;
use crate::model::*;
use crate::runner::*;
use crate::with_curve;
use ark_ec::AffineRepr;
use ark_ff::PrimeField;
use serde::{Deserialize, Serialize};
use serde_json::Value;

pub mod c01;
pub mod c02;
pub mod c03;
pub mod c04;
pub mod c05;
pub mod c06;
pub mod c07;
pub mod c08;
pub mod c09;
#[cfg(feature = "hooks")]
pub mod c10;
pub mod c11;
pub mod c12;
pub mod c15;
pub mod c16;
pub mod c17;
pub mod c18;

/// (n1, n2, m, padded N) of a statement, by symbolic execution on RefCS.
pub fn shape_of(st: &Statement) -> (usize, usize, usize, usize) {
    fn go<F: PrimeField>(st: &Statement) -> (usize, usize, usize, usize) {
        let mut sym = RefCS::<F>::new(false);
        let mut deferred = vec![];
        for op in &st.ops {
            match op {
                Op::Randomized(b) => deferred.push(b),
                o => gen::sym_apply(&mut sym, o),
            }
        }
        sym.begin_phase2();
        for b in deferred {
            for o in b {
                gen::sym_apply(&mut sym, o);
            }
        }
        (sym.n1(), sym.n2(), sym.m, sym.padded())
    }
    go::<ark_secq256k1::Fr>(st)
}

/// A capacity history ending at a capacity >= need (exact, +1, 2x, large).
pub fn gen_cap_history(rng: &mut Rng, need: usize) -> Vec<usize> {
    let fin = match below(rng, 5) {
        0 | 1 => need,
        2 => need + 1,
        3 => 2 * need,
        _ => need + 1 + below(rng, 40),
    };
    let mut h = vec![];
    let steps = below(rng, 4);
    let mut cur = 0usize;
    for _ in 0..steps {
        let c = below(rng, fin + 1);
        h.push(c);
        cur = cur.max(c);
    }
    let _ = cur;
    h.push(fin);
    // a no-op decrease at the end sometimes
    if chance(rng, 1, 4) {
        h.push(below(rng, fin + 1));
    }
    h
}

#[derive(Clone, Debug, PartialEq, Serialize, Deserialize)]
pub struct SessionCase {
    pub st: Statement,
    pub cap_p: Vec<usize>,
    pub cap_v: Vec<usize>,
    pub ext_seed: u64,
}

pub fn gen_session_case(rng: &mut Rng, curve: Curve, kn: &gen::Knobs) -> SessionCase {
    let st = with_curve!(curve, G, {
        gen::gen_statement::<<G as AffineRepr>::ScalarField>(rng, curve, kn)
    });
    let (_, _, _, padded) = shape_of(&st);
    SessionCase {
        cap_p: gen_cap_history(rng, padded),
        cap_v: gen_cap_history(rng, padded),
        ext_seed: rand_core::RngCore::next_u64(rng),
        st,
    }
}

pub fn to_value<T: Serialize>(t: &T) -> Value {
    serde_json::to_value(t).unwrap()
}

pub fn sample_of(case: &SessionCase) -> Value {
    serde_json::json!({
        "curve": case.st.curve.name(),
        "shape": case.st.shape(),
        "cap_history_prover": case.cap_p,
        "cap_history_verifier": case.cap_v,
        "statement": case.st,
    })
}

/// checks that run in a child process under an address-space limit
pub const ISOLATED: &[&str] = &["C08", "C09", "C10", "C11"];
pub const ALL: &[&str] = &["C01", "C02", "C03", "C04", "C05", "C06", "C07", "C08", "C09", "C10", "C11", "C12", "C15", "C16", "C17", "C18"];

/// Case-count scaling (selftest runs a small slice of every check).
pub fn scaled(n: u64) -> u64 {
    match std::env::var("BPSIM_SELFTEST_SCALE").ok().and_then(|s| s.parse::<u64>().ok()) {
        Some(d) if d > 0 => std::cmp::max(2, n / d),
        _ => n,
    }
}

pub fn dispatch(prop: &str, ctx: &Ctx) -> Option<i32> {
    match prop {
        "C01" => Some(c01::run(ctx)),
        "C02" => Some(c02::run(ctx)),
        "C03" => Some(c03::run(ctx)),
        "C04" => Some(c04::run(ctx)),
        "C05" => Some(c05::run(ctx)),
        "C06" => Some(c06::run(ctx)),
        "C07" => Some(c07::run(ctx)),
        "C08" => Some(c08::run(ctx)),
        "C09" => Some(c09::run(ctx)),
        #[cfg(feature = "hooks")]
        "C10" => Some(c10::run(ctx)),
        "C11" => Some(c11::run(ctx)),
        "C12" => Some(c12::run(ctx)),
        "C15" => Some(c15::run(ctx)),
        "C16" => Some(c16::run(ctx)),
        "C17" => Some(c17::run(ctx)),
        "C18" => Some(c18::run(ctx)),
        _ => None,
    }
}

pub fn replay(prop: &str, case: &Value) -> Option<Vec<Violation>> {
    match prop {
        "C01" => Some(c01::replay(case)),
        "C02" => Some(c02::replay(case)),
        "C03" => Some(c03::replay(case)),
        "C04" => Some(c04::replay(case)),
        "C05" => Some(c05::replay(case)),
        "C06" => Some(c06::replay(case)),
        "C07" => Some(c07::replay(case)),
        "C08" => Some(c08::replay(case)),
        "C09" => Some(c09::replay(case)),
        #[cfg(feature = "hooks")]
        "C10" => Some(c10::replay(case)),
        "C11" => Some(c11::replay(case)),
        "C12" => Some(c12::replay(case)),
        "C15" => Some(c15::replay(case)),
        "C16" => Some(c16::replay(case)),
        "C17" => Some(c17::replay(case)),
        "C18" => Some(c18::replay(case)),
        _ => None,
    }
}

use crate::codec::ProofFields;
use crate::refsession::{ref_verify, RefResult};
use crate::session::*;
use ark_bulletproofs::r1cs::R1CSProof;

/// Outcome of running the prover node on a session case.
pub struct Proved<G: AffineRepr> {
    pub commitments: Vec<G>,
    pub bytes: Vec<u8>,
    pub satisfied: bool,
    pub first_violation: Option<String>,
    pub n1: usize,
    pub n2: usize,
    pub m: usize,
    pub padded: usize,
    pub steps: u64,
    pub probes: Vec<(&'static str, u64)>,
}

/// Run the real prover.  Err(description) if no proof came out (error,
/// panic, or handle divergence).
pub fn prove_case<G: AffineRepr>(case: &SessionCase, record: bool) -> Result<(Proved<G>, ProveOut<G>), String> {
    let bp_p = gens_with_history::<G>(&case.cap_p, parties_for(&case.cap_p));
    let out = run_prover::<G>(
        &case.st,
        &bp_p,
        &ProverCfg {
            ext_seed: case.ext_seed,
            ext_mode: RngMode::Normal,
            record,
        },
    );
    let pr = {
        let sh = out.shared.borrow();
        if let Some(d) = &sh.diverged {
            return Err(format!("prover handles diverged from model: {}", d));
        }
        let proof = match &out.result {
            Ok(p) => p,
            Err(Ok(e)) => return Err(format!("prove returned {:?}", e)),
            Err(Err(m)) => return Err(format!("prove panicked: {}", m)),
        };
        Proved {
            commitments: out.commitments.clone(),
            bytes: proof_bytes(proof),
            satisfied: sh.model.satisfied(),
            first_violation: sh.model.first_violation(),
            n1: sh.model.n1(),
            n2: sh.model.n2(),
            m: sh.model.m,
            padded: sh.model.padded(),
            steps: sh.steps as u64,
            probes: sh.model.probes.iter().map(|(k, v)| (*k, *v)).collect(),
        }
    };
    Ok((pr, out))
}

#[derive(Clone, Debug)]
pub struct RealVerdict {
    pub decoded: bool,
    pub accepted: bool,
    pub panicked: bool,
    pub text: String,
}

/// Deliver bytes to a fresh real verifier for `st`.
pub fn deliver<G: AffineRepr>(
    st: &Statement,
    commitments: &[G],
    bytes: &[u8],
    cap: &[usize],
) -> RealVerdict {
    let dec = catch(|| R1CSProof::<G>::from_bytes(bytes));
    let proof = match dec {
        Err(m) => {
            return RealVerdict {
                decoded: false,
                accepted: false,
                panicked: true,
                text: format!("PANIC in from_bytes: {}", m),
            }
        }
        Ok(Err(e)) => {
            return RealVerdict {
                decoded: false,
                accepted: false,
                panicked: false,
                text: format!("decode-error({:?})", e),
            }
        }
        Ok(Ok(p)) => p,
    };
    let bp = gens_with_history::<G>(cap, parties_for(cap));
    let v = run_verifier::<G>(st, commitments, &proof, &bp, false);
    RealVerdict {
        decoded: true,
        accepted: v.accepted(),
        panicked: v.panicked(),
        text: v.describe(),
    }
}

/// Reference verdict on an encoding (None if RefCodec cannot parse it).
pub fn ref_verdict<G: AffineRepr>(
    st: &Statement,
    commitments: &[G],
    bytes: &[u8],
) -> Option<RefResult<G::ScalarField>> {
    let pf = ProofFields::<G>::parse(bytes).ok()?;
    Some(ref_verify::<G>(st, commitments, &pf))
}

use crate::shrink::{self, follow_at};

/// statement-level shrink candidates for a session case
pub fn shrink_session(sc: &SessionCase) -> Vec<(SessionCase, Option<(usize, Option<usize>)>)> {
    let mut out = vec![];
    for (st, removed) in shrink::shrink_statement(&sc.st) {
        let (_, _, _, padded) = shape_of(&st);
        out.push((SessionCase { st, cap_p: vec![padded], cap_v: vec![padded], ext_seed: sc.ext_seed }, removed));
    }
    let (_, _, _, padded) = shape_of(&sc.st);
    if sc.cap_p != vec![padded] || sc.cap_v != vec![padded] {
        out.push((SessionCase { st: sc.st.clone(), cap_p: vec![padded], cap_v: vec![padded], ext_seed: sc.ext_seed }, None));
    }
    out
}

pub fn shrink_wfault(f: &crate::faults::WFault, removed: Option<(usize, Option<usize>)>) -> Option<crate::faults::WFault> {
    use crate::faults::WFault;
    let Some(r) = removed else { return Some(f.clone()) };
    Some(match f {
        WFault::WireValue { at, which, d } => WFault::WireValue { at: follow_at(*at, r)?, which: *which, d: d.clone() },
        WFault::Constant { at, d } => WFault::Constant { at: follow_at(*at, r)?, d: d.clone() },
        WFault::ConstantPair { at1, at2, d } => WFault::ConstantPair { at1: follow_at(*at1, r)?, at2: follow_at(*at2, r)?, d: d.clone() },
        WFault::CommitValue { at, d } => WFault::CommitValue { at: follow_at((*at, None), r)?.0, d: d.clone() },
        other => other.clone(),
    })
}

/// Candidate simplifications of a failing case (simplest first).
pub fn shrink_case(prop: &str, case: &Value) -> Vec<Value> {
    match prop {
        "C01" => c01::shrink(case),
        "C02" => c02::shrink(case),
        "C03" => c03::shrink(case),
        "C04" => c04::shrink(case),
        "C05" => c05::shrink(case),
        "C06" => c06::shrink(case),
        "C07" => c07::shrink(case),
        "C09" => c09::shrink(case),
        #[cfg(feature = "hooks")]
        "C10" => c10::shrink(case),
        "C12" => c12::shrink(case),
        "C16" => c16::shrink(case),
        _ => vec![],
    }
}

/// Adaptive adversary: forgeries that would be accepted by a verifier that
/// derives its relation-combining weight too early.  For every schedule
/// position p before the blinding scalars are absorbed, r_p is what such a
/// verifier would use; the forgery trades t_x_blinding against e_blinding
/// with that weight (t~ - d, e~ + r_p d).  A correct verifier rejects all.
pub fn adaptive_forgeries<G: AffineRepr>(
    st: &Statement,
    commitments: &[G],
    bytes: &[u8],
) -> Vec<(usize, Vec<u8>)> {
    use ark_std::UniformRand;
    use rand_core::SeedableRng;
    let Ok(pf) = ProofFields::<G>::parse(bytes) else { return vec![] };
    let rf = crate::refsession::ref_verify_opt::<G>(st, commitments, &pf, true);
    // position of the t_x_blinding append in the schedule
    let Some(q) = rf.sched.iter().position(|o| matches!(o, crate::refsession::SOp::Append { label, .. } if label == b"t_x_blinding")) else { return vec![] };
    let mut out = vec![];
    let d = G::ScalarField::from(7u64);
    // coordinated pairs among the six vector commitments: P_i += D,
    // P_j -= (c_i / c_j) D with the verification coefficients c = (x, x^2,
    // x^3, ux, ux^2, ux^3) taken from the schedule of the ORIGINAL proof.  A
    // correct verifier absorbs these points before deriving x and u, so the
    // forgery changes the challenges and is rejected; one that fails to bind
    // a point (for some circuit shape) accepts.
    {
        use ark_ec::CurveGroup;
        use ark_ff::Field;
        let (x, u) = (rf.x, rf.u);
        let cs = [x, x * x, x * x * x, u * x, u * x * x, u * x * x * x];
        let dpt = crate::refgens::ref_chain_cached::<G>(b'G', 3, 1)[0];
        let mut k = 1000usize;
        for i in 0..6 {
            for j in (i + 1)..6 {
                k += 1;
                let Some(cj_inv) = cs[j].inverse() else { continue };
                let mut f = pf.clone();
                f.pts[i] = (f.pts[i].into_group() + dpt.into_group()).into_affine();
                f.pts[j] = (f.pts[j].into_group() - dpt.into_group() * (cs[i] * cj_inv)).into_affine();
                out.push((k, f.encode()));
            }
        }
    }
    let mut seen = std::collections::BTreeSet::new();
    // r_candidates[i] = weight a clone taken right after sched[i] would give
    // (index 0 is a placeholder); only positions before the blinding
    // scalars are absorbed are computable by the adversary
    for p in 1..q {
        let Some(rb) = rf.r_candidates.get(p) else { continue };
        if rb.len() != 32 || !seen.insert(rb.clone()) {
            continue;
        }
        let mut seed = [0u8; 32];
        seed.copy_from_slice(rb);
        let r = G::ScalarField::rand(&mut rand_chacha::ChaCha20Rng::from_seed(seed));
        let mut f = pf.clone();
        f.scs[1] -= d;
        f.scs[2] += r * d;
        out.push((p, f.encode()));
    }
    out
}
