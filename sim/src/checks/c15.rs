//! C15 linear-combination arithmetic — a workload profile of the session
//! simulator: one-constraint circuits over expression trees.
use super::*;
use crate::with_curve;
use serde_json::json;

#[derive(Clone, Debug, Serialize, Deserialize)]
pub struct Case {
    pub curve: Curve,
    pub expr: Expr,
    /// error added to the constant on the statement-fault leg
    pub delta: S,
    pub ext_seed: u64,
    pub in_phase2: bool,
}

/// variables of all four kinds + the constant One
fn scaffold(curve: Curve, body: Vec<Op>, in_phase2: bool) -> Statement {
    let mut ops = vec![
        Op::Commit { v: S::U(7), r: S::U(100) },
        Op::Commit { v: S::N(3), r: S::U(101) },
        Op::AllocMul(Some((Val::Lit(S::U(5)), Val::Lit(S::N(2))))),
        Op::Alloc(Some(Val::Lit(S::U(11)))),
        Op::Alloc(Some(Val::Lit(S::B("ffffffffffffffff01000000000000000000000000000000000000000000000a".into())))),
        Op::Mul(Expr::V(0), Expr::V(1)),
    ];
    if in_phase2 {
        let mut b = vec![Op::Challenge { label: 5 }, Op::Challenge { label: 4 }];
        b.extend(body);
        ops.push(Op::Randomized(b));
    } else {
        ops.extend(body);
    }
    Statement { curve, tlabel: 0, pre: vec![], bases: Bases::Default, ops }
}
// table: 0,1 committed; 2,3,4 = L0,R0,O0; 5 = L1, 6 = R1; 7,8,9 = L2,R2,O2

pub fn run_case<G: AffineRepr>(run: u64, case: &Case, st: &mut Stats) {
    type F<G> = <G as AffineRepr>::ScalarField;
    let viol = |st: &mut Stats, oracle: &str, detail: String| {
        st.violate(Violation { run, oracle: oracle.into(), signature: format!("{}:{}", oracle, case.curve.name()), detail, case: to_value(case) });
    };
    // the reference value under the assignment, from the model's own evaluator:
    // run the scaffold once with a dummy body to learn the value (needs challenges
    // in phase 2, so the constant is injected as Eval at run time through a
    // fresh wire: wire = value(expr); constrain expr - wire (accept) and, on the
    // fault leg, expr - wire - delta (reject)).
    crate::interp::ops_used_reset();
    for (leg, d) in [("accept", None), ("reject", Some(case.delta.clone()))] {
        st.eval();
        let wire_idx = if case.in_phase2 { 10 } else { 10 };
        let mut body = vec![Op::Alloc(Some(Val::Eval(case.expr.clone())))];
        let target = match &d {
            None => Expr::sub(case.expr.clone(), Expr::V(wire_idx)),
            Some(dd) => Expr::sub(Expr::sub(case.expr.clone(), Expr::V(wire_idx)), Expr::K(dd.clone())),
        };
        body.push(Op::Constrain(target));
        let stmt = scaffold(case.curve, body, case.in_phase2);
        let (_, _, _, padded) = shape_of(&stmt);
        let sc = SessionCase { st: stmt, cap_p: vec![padded], cap_v: vec![padded], ext_seed: case.ext_seed };
        let (pr, _o) = match prove_case::<G>(&sc, false) {
            Ok(x) => x,
            Err(e) => {
                viol(st, "prove", e);
                return;
            }
        };
        st.steps += pr.steps + 1;
        let v = deliver::<G>(&sc.st, &pr.commitments, &pr.bytes, &sc.cap_v);
        if v.panicked {
            viol(st, "no-panic", v.text.clone());
            return;
        }
        let dz = d.as_ref().map(|x| x.f::<F<G>>() == F::<G>::from(0u64)).unwrap_or(true);
        match leg {
            "accept" => {
                if !pr.satisfied {
                    viol(st, "model-self-check", "model says its own value does not satisfy expr - value = 0".into());
                    return;
                }
                if !v.accepted {
                    viol(st, "expr-minus-value-provable", format!("constraining (expr - value(expr)) to zero was rejected: {}", v.text));
                    return;
                }
            }
            _ => {
                st.fault("F7-constant-off-by-delta");
                if !dz && v.accepted {
                    viol(st, "expr-minus-wrong-value-rejected", format!("constraining (expr - value - {:?}) to zero was ACCEPTED", d));
                    return;
                }
                if dz {
                    st.probe("delta-is-zero-in-this-field(no-demand)");
                }
            }
        }
    }
    for (k, n) in crate::interp::ops_used_take() {
        st.probe_n(&format!("op:{}", k), n);
    }
    st.distinct(&format!("{}|{}|{:?}", case.curve.name(), case.in_phase2, case.expr));
    st.log_digest(run, format!("{:?}", case.expr).as_bytes());
    st.sample(run, json!({"curve": case.curve.name(), "expr": case.expr, "delta": case.delta, "phase2": case.in_phase2, "size": case.expr.size()}));
}

pub fn case_for(seed: u64, tier: Tier, run: u64) -> Case {
    let curve = CURVES[(run % 3) as usize];
    let mut rng = sub_rng(seed, "C15", run, "case");
    let in_phase2 = run % 4 == 3;
    let cx = gen::ExprCtx { table_len: 10, gates: 3, m: 2, nchals: if in_phase2 { 2 } else { 0 }, raw_refs: true, pending: None };
    let depth = 1 + below(&mut rng, tier.pick(5, 6));
    let expr = gen::gen_expr(&mut rng, &cx, depth);
    let delta = match below(&mut rng, 3) {
        0 => S::U(1),
        1 => S::N(1),
        _ => gen_scalar_nonzero::<ark_secq256k1::Fr>(&mut rng),
    };
    Case { curve, expr, delta, ext_seed: rand_core::RngCore::next_u64(&mut rng), in_phase2 }
}

pub fn run(ctx: &Ctx) -> i32 {
    let n = scaled(ctx.tier.pick(4000, 120_000));
    let stats = par_run(n, ctx.workers, |i, st| {
        let case = case_for(ctx.seed, ctx.tier, i);
        with_curve!(case.curve, G, run_case::<G>(i, &case, st));
    });
    finish(
        ctx,
        stats,
        Report {
            level: "exploration",
            rule: "one-constraint circuits over variables of all four kinds and the constant: a random expression tree (depth <= 6) over EVERY operator impl of linear_combination.rs (Variable+-L, -Variable, Variable*S, LC+-L, -LC, LC*S, From<Variable>, From<F>, both FromIterator impls, Default; repeated variables, zero coefficients, nested constants, challenge-dependent coefficients in phase 2) is built on the real side with the crate's own operators and evaluated by the model's own AST evaluator; fault-free leg: expr - value = 0 must be provable and accepted; statement-fault leg: expr - value - delta = 0 must be rejected. distinct by expression tree".into(),
            exhaustive: false,
            assumptions: {
                let mut a = base_assumptions();
                a.push("weakest fit: the operators are pure; simulation contributes the two-party verdict as observation point and the model as oracle (DESIGN.md 3.C15)".into());
                a
            },
            real_components: REAL.to_vec(),
            simulated_components: vec!["expression-tree generator", "RefCS evaluator / flattener (model)", "statement-constant fault"],
            extra: json!({}),
        },
    )
}

pub fn replay(case: &Value) -> Vec<Violation> {
    let case: Case = serde_json::from_value(case.clone()).expect("case json");
    let mut st = Stats::default();
    with_curve!(case.curve, G, run_case::<G>(0, &case, &mut st));
    st.violations
}
