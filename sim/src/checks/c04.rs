//! C04 proof integrity — channel faults on a valid proof (F1 exhaustive, F3, F4, F5).
use super::*;
use crate::tamper::{self, Tamper};
use crate::with_curve;
use serde_json::json;

const CHUNKS: u64 = 16;

#[derive(Clone, Debug, Serialize, Deserialize)]
pub struct Case {
    pub base: SessionCase,
    /// None = the whole chunk `chunk` of bit flips (+ catalogue when chunk 0)
    pub single: Option<Tamper>,
    pub chunk: u64,
    pub cat_seed: u64,
    /// replay of an adaptive forgery found at this schedule position
    #[serde(default)]
    pub adaptive: Option<usize>,
}

fn judge<G: AffineRepr>(
    run: u64,
    case: &Case,
    pr: &Proved<G>,
    t: &Tamper,
    st: &mut Stats,
) {
    let Some(bytes) = tamper::apply_bytes::<G>(&pr.bytes, t) else {
        return;
    };
    st.eval();
    st.steps += 1;
    st.fault(t.kind());
    let dec = catch(|| R1CSProof::<G>::from_bytes(&bytes));
    let viol = |st: &mut Stats, oracle: &str, detail: String| {
        st.violate(Violation {
            run,
            oracle: oracle.into(),
            signature: format!("{}:{}:{}", oracle, t.kind(), case.base.st.curve.name()),
            detail,
            case: json!({"base": case.base, "single": t, "chunk": 0, "cat_seed": 0}),
        });
    };
    let proof = match dec {
        Err(m) => {
            viol(st, "no-panic", format!("from_bytes panicked on {:?}: {}", t, m));
            return;
        }
        Ok(Err(_)) => {
            st.probe("rejected-at-decoding");
            return;
        }
        Ok(Ok(p)) => p,
    };
    st.probe("tampered-proof-still-decoded");
    let re = proof.to_bytes().unwrap_or_default();
    let same_object = re == pr.bytes;
    let bp = gens_with_history::<G>(&case.base.cap_v, 1);
    let v = run_verifier::<G>(&case.base.st, &pr.commitments, &proof, &bp, false);
    if v.panicked() {
        st.probe("real-panicked(C08)");
        return;
    }
    if same_object {
        st.probe("decoded-to-identical-object");
        if !v.accepted() {
            viol(
                st,
                "identical-object-accepted",
                format!("{:?} decodes to the identical proof object but was {}", t, v.describe()),
            );
        }
    } else {
        if v.accepted() {
            viol(
                st,
                "altered-proof-rejected",
                format!(
                    "{:?} yields a DIFFERENT proof object that was accepted (n1={}, n2={}, m={})",
                    t, pr.n1, pr.n2, pr.m
                ),
            );
            return;
        }
        st.distinct(&format!(
            "{}|{}|{:?}",
            case.base.st.curve.name(),
            case.base.st.shape(),
            t
        ));
    }
}

pub fn run_case<G: AffineRepr>(run: u64, case: &Case, st: &mut Stats) {
    let (pr, _o) = match prove_case::<G>(&case.base, false) {
        Ok(x) => x,
        Err(_) => {
            st.probe("no-proof(skipped)");
            return;
        }
    };
    // base case must be an accepted proof
    let v0 = deliver::<G>(&case.base.st, &pr.commitments, &pr.bytes, &case.base.cap_v);
    if !v0.accepted {
        st.probe("base-proof-not-accepted(skipped)");
        return;
    }
    if let Some(pos) = case.adaptive {
        for (p, fb) in adaptive_forgeries::<G>(&case.base.st, &pr.commitments, &pr.bytes) {
            if p == pos {
                st.eval();
                let v = deliver::<G>(&case.base.st, &pr.commitments, &fb, &case.base.cap_v);
                if v.accepted {
                    st.violate(Violation { run, oracle: "altered-proof-rejected".into(), signature: format!("adaptive-forgery-accepted:{}", case.base.st.curve.name()),
                        detail: format!("adaptive forgery for schedule position {} accepted", pos), case: to_value(case) });
                }
            }
        }
        return;
    }
    if let Some(t) = &case.single {
        judge::<G>(run, case, &pr, t, st);
        return;
    }
    let nbits = (pr.bytes.len() * 8) as u64;
    let per = (nbits + CHUNKS - 1) / CHUNKS;
    let lo = case.chunk * per;
    let hi = std::cmp::min(nbits, lo + per);
    for k in lo..hi {
        judge::<G>(run, case, &pr, &Tamper::FlipBit(k as usize), st);
    }
    // the field-level catalogue is spread over the chunks too
    let mut rng = rng_from_u64(case.cat_seed, "c04-cat");
    let k = pr.padded.trailing_zeros() as usize;
    let cat = tamper::catalogue(k, &mut rng);
    for (i, t) in cat.iter().enumerate() {
        if (i as u64) % CHUNKS == case.chunk {
            judge::<G>(run, case, &pr, t, st);
        }
    }
    if case.chunk == 0 {
        // adaptive adversary: forgeries tuned to a weight derived too early
        for (pos, fb) in adaptive_forgeries::<G>(&case.base.st, &pr.commitments, &pr.bytes) {
            st.eval();
            st.fault("F4-adaptive-weighted-blinding-shift");
            let v = deliver::<G>(&case.base.st, &pr.commitments, &fb, &case.base.cap_v);
            if v.accepted {
                st.violate(Violation {
                    run,
                    oracle: "altered-proof-rejected".into(),
                    signature: format!("adaptive-forgery-accepted:{}", case.base.st.curve.name()),
                    detail: format!("forged proof (t_x_blinding - d, e_blinding + r_p*d with r_p = weight derivable after schedule position {}) was ACCEPTED: the verifier's relation-combining weight does not depend on the blinding scalars", pos),
                    case: json!({"base": case.base, "single": Tamper::None, "chunk": 0, "cat_seed": 0, "adaptive": pos}),
                });
                break;
            }
        }
        st.count("proofs_exhaustively_flipped", 1);
        st.count("bits_per_proof_total", nbits);
        st.sample(
            run,
            json!({"curve": case.base.st.curve.name(), "shape": case.base.st.shape(), "proof_bytes": pr.bytes.len(),
                   "bit_flips": nbits, "catalogue_size": cat.len(), "example_tampers": cat.iter().take(3).collect::<Vec<_>>()}),
        );
        st.log_digest(run, &pr.bytes);
    }
}

pub fn case_for(seed: u64, tier: Tier, run: u64) -> Case {
    let p = run / CHUNKS;
    let chunk = run % CHUNKS;
    let curve = CURVES[(p % 3) as usize];
    let mut rng = sub_rng(seed, "C04", p, "case");
    let mut kn = tier.pick(gen::Knobs::quick(), gen::Knobs::thorough());
    kn.max_gates = 16; // k = 0..4
    // retry until satisfiable-looking (cheap): the run itself checks acceptance
    let base = gen_session_case(&mut rng, curve, &kn);
    use rand_core::RngCore;
    Case {
        base,
        single: None,
        chunk,
        cat_seed: rng.next_u64(),
        adaptive: None,
    }
}

pub fn run(ctx: &Ctx) -> i32 {
    let proofs = scaled(ctx.tier.pick(18, 200));
    let n = proofs * CHUNKS;
    let stats = par_run(n, ctx.workers, |i, st| {
        let case = case_for(ctx.seed, ctx.tier, i);
        with_curve!(case.base.st.curve, G, run_case::<G>(i, &case, st));
    });
    finish(
        ctx,
        stats,
        Report {
            level: "fault_enumeration",
            rule: "for each sampled accepted proof: EVERY single-bit flip of its encoding, plus the full field-level catalogue (every point slot: negate, +B, double, identity, random, copy; every unordered pair of point slots swapped; every scalar slot: +1, -1, +d, negate, zero, random, pair swaps; blinding / t_x-ab shifts; rescaling; round surgery; trailing bytes). Oracle: decode error is fine; decodes and re-encodes to the original bytes => identical object => must be accepted; otherwise must be rejected. distinct = distinct (proof, tamper) pairs that decoded to a different object".into(),
            exhaustive: true,
            assumptions: {
                let mut a = base_assumptions();
                a.push("exhaustive refers to the bit space and catalogue of each sampled proof, not to the space of proofs".into());
                a
            },
            real_components: REAL.to_vec(),
            simulated_components: vec!["channel adversary (bit flips, field surgery via RefCodec)", "program generator"],
            extra: json!({}),
        },
    )
}

pub fn replay(case: &Value) -> Vec<Violation> {
    let case: Case = serde_json::from_value(case.clone()).expect("case json");
    let mut st = Stats::default();
    with_curve!(case.base.st.curve, G, run_case::<G>(0, &case, &mut st));
    st.violations
}

pub fn shrink(case: &Value) -> Vec<Value> {
    let Ok(c) = serde_json::from_value::<Case>(case.clone()) else { return vec![] };
    if c.single.is_none() && c.adaptive.is_none() {
        return vec![];
    }
    shrink_session(&c.base).into_iter().map(|(b, _)| to_value(&Case { base: b, single: c.single.clone(), chunk: 0, cat_seed: 0, adaptive: c.adaptive })).collect()
}
