//! Program representation (generated call histories) and RefCS, the
//! executable reference model of the constraint-system bookkeeping.
//!
//! Written from the protocol, not from the code: gate list, committed list,
//! sparse constraints, phase boundary, pending-allocation rule, handle
//! numbering, satisfaction and flattened weights.

use crate::common::S;
use ark_ff::PrimeField;
use serde::{Deserialize, Serialize};
use std::collections::BTreeMap;

/// Model-side variable key.
#[derive(Clone, Copy, Debug, PartialEq, Eq, PartialOrd, Ord, Serialize, Deserialize)]
pub enum VK {
    L(usize),
    R(usize),
    O(usize),
    C(usize),
    One,
}

/// A coefficient: literal, or literal times a product of phase-2 challenges.
#[derive(Clone, Debug, PartialEq, Serialize, Deserialize)]
pub enum Coef {
    Lit(S),
    Chal(S, Vec<usize>),
}

#[derive(Clone, Debug, PartialEq, Serialize, Deserialize)]
pub enum TermVar {
    /// index into the variable table (handles returned by earlier calls)
    V(usize),
    /// a handle the caller constructed by hand
    Raw(VK),
}

/// Expression tree over the operators of `linear_combination.rs`.
#[derive(Clone, Debug, PartialEq, Serialize, Deserialize)]
pub enum Expr {
    V(usize),
    Raw(VK),
    /// field constant (`From<F>`)
    K(S),
    /// field constant that is a product of challenges times a literal
    KC(Coef),
    Add(Box<Expr>, Box<Expr>),
    Sub(Box<Expr>, Box<Expr>),
    Neg(Box<Expr>),
    Scale(Box<Expr>, Coef),
    /// `FromIterator` (by value if `false`, by reference if `true`)
    Terms(Vec<(TermVar, Coef)>, bool),
    /// `LinearCombination::default()`
    Empty,
}

impl Expr {
    pub fn v(i: usize) -> Expr {
        Expr::V(i)
    }
    pub fn k(s: S) -> Expr {
        Expr::K(s)
    }
    pub fn sub(a: Expr, b: Expr) -> Expr {
        Expr::Sub(Box::new(a), Box::new(b))
    }
    pub fn add(a: Expr, b: Expr) -> Expr {
        Expr::Add(Box::new(a), Box::new(b))
    }
    pub fn neg(a: Expr) -> Expr {
        Expr::Neg(Box::new(a))
    }
    pub fn scale(a: Expr, c: Coef) -> Expr {
        Expr::Scale(Box::new(a), c)
    }
    pub fn size(&self) -> usize {
        match self {
            Expr::Add(a, b) | Expr::Sub(a, b) => 1 + a.size() + b.size(),
            Expr::Neg(a) | Expr::Scale(a, _) => 1 + a.size(),
            Expr::Terms(t, _) => 1 + t.len(),
            _ => 1,
        }
    }
    /// largest table index referenced (None if none)
    pub fn max_table(&self) -> Option<usize> {
        match self {
            Expr::V(i) => Some(*i),
            Expr::Add(a, b) | Expr::Sub(a, b) => a.max_table().max(b.max_table()),
            Expr::Neg(a) | Expr::Scale(a, _) => a.max_table(),
            Expr::Terms(t, _) => t
                .iter()
                .filter_map(|(v, _)| match v {
                    TermVar::V(i) => Some(*i),
                    _ => None,
                })
                .max(),
            _ => None,
        }
    }
}

/// Source of a witness value handed to the prover.
#[derive(Clone, Debug, PartialEq, Serialize, Deserialize)]
pub enum Val {
    Lit(S),
    /// model's evaluation of the expression at the time of the call
    Eval(Expr),
    /// evaluation plus an error term (fault F10: wrong wire value)
    EvalPlus(Expr, S),
    /// product of two evaluated expressions
    EvalMul(Expr, Expr),
}

#[derive(Clone, Debug, PartialEq, Serialize, Deserialize)]
pub enum Op {
    Commit { v: S, r: S },
    /// `allocate(Some(val))`, or `allocate(None)` on the prover if `None`
    Alloc(Option<Val>),
    AllocMul(Option<(Val, Val)>),
    Mul(Expr, Expr),
    Constrain(Expr),
    /// `cs.transcript().append_message(LABELS[label], data)`
    UserData { label: usize, data: Vec<u8> },
    /// `specify_randomized_constraints(closure executing these ops)`
    Randomized(Vec<Op>),
    /// phase 2 only: `challenge_scalar(LABELS[label])`, pushed to the challenge table
    Challenge { label: usize },
    /// prover-only memory fault through the guarded hook
    OverwriteGate { gate: usize, l: Val, r: Val, o: Val },
}

impl Op {
    pub fn kind(&self) -> &'static str {
        match self {
            Op::Commit { .. } => "commit",
            Op::Alloc(Some(_)) => "alloc",
            Op::Alloc(None) => "alloc-missing",
            Op::AllocMul(Some(_)) => "allocmul",
            Op::AllocMul(None) => "allocmul-missing",
            Op::Mul(..) => "mul",
            Op::Constrain(_) => "constrain",
            Op::UserData { .. } => "userdata",
            Op::Randomized(_) => "randomized",
            Op::Challenge { .. } => "challenge",
            Op::OverwriteGate { .. } => "overwrite",
        }
    }
    pub fn kind_char(&self) -> char {
        match self {
            Op::Commit { .. } => 'c',
            Op::Alloc(Some(_)) => 'a',
            Op::Alloc(None) => 'x',
            Op::AllocMul(Some(_)) => 'A',
            Op::AllocMul(None) => 'X',
            Op::Mul(..) => 'm',
            Op::Constrain(_) => 'k',
            Op::UserData { .. } => 'u',
            Op::Randomized(_) => 'R',
            Op::Challenge { .. } => 'z',
            Op::OverwriteGate { .. } => 'w',
        }
    }
}

/// Pedersen bases of a statement.
#[derive(Clone, Debug, PartialEq, Serialize, Deserialize)]
pub enum Bases {
    Default,
    /// both bases derived from a seed (random pair)
    Seeded(u64),
    /// default B, seeded B_blinding
    SeededBlinding(u64),
    /// seeded B, default B_blinding
    SeededValue(u64),
}

/// Everything both roles must agree on.
#[derive(Clone, Debug, PartialEq, Serialize, Deserialize)]
pub struct Statement {
    pub curve: crate::common::Curve,
    pub tlabel: usize,
    /// application data appended to the transcript before `new`
    pub pre: Vec<(usize, Vec<u8>)>,
    pub bases: Bases,
    pub ops: Vec<Op>,
}

impl Statement {
    pub fn shape(&self) -> String {
        let mut s = String::new();
        for op in &self.ops {
            s.push(op.kind_char());
            if let Op::Randomized(inner) = op {
                s.push('[');
                for o in inner {
                    s.push(o.kind_char());
                }
                s.push(']');
            }
        }
        s
    }
    pub fn n_commits(&self) -> usize {
        self.ops
            .iter()
            .filter(|o| matches!(o, Op::Commit { .. }))
            .count()
    }
}

#[derive(Clone, Debug, PartialEq, Eq)]
pub enum ModelErr {
    MissingAssignment,
}

/// Reference constraint system.
#[derive(Clone, Debug)]
pub struct RefCS<F: PrimeField> {
    /// does this instance carry a witness (prover role) or not (verifier role)
    pub witness: bool,
    pub a_l: Vec<F>,
    pub a_r: Vec<F>,
    pub a_o: Vec<F>,
    pub gates: usize,
    pub v: Vec<F>,
    pub vb: Vec<F>,
    pub m: usize,
    pub pending: Option<usize>,
    pub cons: Vec<BTreeMap<VK, F>>,
    pub table: Vec<VK>,
    pub chals: Vec<F>,
    /// number of gates at the phase boundary (None while still in phase 1)
    pub n1: Option<usize>,
    /// per-gate: was the gate's triple left unconstrained (allocated) or
    /// pinned by `multiply`
    pub probes: BTreeMap<&'static str, u64>,
}

impl<F: PrimeField> RefCS<F> {
    pub fn new(witness: bool) -> Self {
        RefCS {
            witness,
            a_l: vec![],
            a_r: vec![],
            a_o: vec![],
            gates: 0,
            v: vec![],
            vb: vec![],
            m: 0,
            pending: None,
            cons: vec![],
            table: vec![],
            chals: vec![],
            n1: None,
            probes: BTreeMap::new(),
        }
    }

    fn probe(&mut self, k: &'static str) {
        *self.probes.entry(k).or_insert(0) += 1;
    }

    pub fn coef(&self, c: &Coef) -> F {
        match c {
            Coef::Lit(s) => s.f(),
            Coef::Chal(s, idx) => {
                let mut x: F = s.f();
                for i in idx {
                    // (a missing challenge only arises after a reported divergence)
                    x *= self.chals.get(*i).copied().unwrap_or_else(F::one);
                }
                x
            }
        }
    }

    fn termvar(&self, t: &TermVar) -> VK {
        match t {
            TermVar::V(i) => self.table[*i],
            TermVar::Raw(vk) => *vk,
        }
    }

    fn acc(map: &mut BTreeMap<VK, F>, k: VK, c: F) {
        *map.entry(k).or_insert_with(F::zero) += c;
    }

    /// The model's own flattening of an expression: a sparse map var -> coeff.
    pub fn lin(&self, e: &Expr) -> BTreeMap<VK, F> {
        let mut out = BTreeMap::new();
        self.lin_into(e, F::one(), &mut out);
        out
    }

    fn lin_into(&self, e: &Expr, mult: F, out: &mut BTreeMap<VK, F>) {
        match e {
            Expr::V(i) => Self::acc(out, self.table[*i], mult),
            Expr::Raw(vk) => Self::acc(out, *vk, mult),
            Expr::K(s) => Self::acc(out, VK::One, mult * s.f::<F>()),
            Expr::KC(c) => Self::acc(out, VK::One, mult * self.coef(c)),
            Expr::Add(a, b) => {
                self.lin_into(a, mult, out);
                self.lin_into(b, mult, out);
            }
            Expr::Sub(a, b) => {
                self.lin_into(a, mult, out);
                self.lin_into(b, -mult, out);
            }
            Expr::Neg(a) => self.lin_into(a, -mult, out),
            Expr::Scale(a, c) => self.lin_into(a, mult * self.coef(c), out),
            Expr::Terms(ts, _) => {
                for (t, c) in ts {
                    Self::acc(out, self.termvar(t), mult * self.coef(c));
                }
            }
            Expr::Empty => {}
        }
    }

    pub fn value_of(&self, k: VK) -> F {
        match k {
            VK::L(i) => self.a_l[i],
            VK::R(i) => self.a_r[i],
            VK::O(i) => self.a_o[i],
            VK::C(i) => self.v[i],
            VK::One => F::one(),
        }
    }

    pub fn eval_lin(&self, l: &BTreeMap<VK, F>) -> F {
        let mut s = F::zero();
        for (k, c) in l {
            s += *c * self.value_of(*k);
        }
        s
    }

    pub fn eval(&self, e: &Expr) -> F {
        assert!(self.witness);
        self.eval_lin(&self.lin(e))
    }

    pub fn eval_val(&self, v: &Val) -> F {
        match v {
            Val::Lit(s) => s.f(),
            Val::Eval(e) => self.eval(e),
            Val::EvalPlus(e, d) => self.eval(e) + d.f::<F>(),
            Val::EvalMul(a, b) => self.eval(a) * self.eval(b),
        }
    }

    pub fn commit(&mut self, v: Option<(F, F)>) -> VK {
        if let Some((v, r)) = v {
            self.v.push(v);
            self.vb.push(r);
        }
        let k = VK::C(self.m);
        self.m += 1;
        if !self.cons.is_empty() {
            self.probe("commit-after-constrain");
        }
        if self.gates > 0 {
            self.probe("commit-after-gate");
        }
        self.table.push(k);
        k
    }

    fn push_gate(&mut self, t: Option<(F, F, F)>) -> usize {
        let i = self.gates;
        self.gates += 1;
        if self.witness {
            let (l, r, o) = t.expect("witness role needs values");
            self.a_l.push(l);
            self.a_r.push(r);
            self.a_o.push(o);
        }
        i
    }

    /// `allocate`: `Err` iff the prover role is given no assignment; in that
    /// case nothing changes.
    pub fn allocate(&mut self, val: Option<F>) -> Result<VK, ModelErr> {
        if self.witness && val.is_none() {
            return Err(ModelErr::MissingAssignment);
        }
        match self.pending {
            None => {
                let z = F::zero();
                let i = self.push_gate(val.map(|x| (x, z, z)));
                self.pending = Some(i);
                let k = VK::L(i);
                self.table.push(k);
                Ok(k)
            }
            Some(i) => {
                self.pending = None;
                if self.witness {
                    self.a_r[i] = val.unwrap();
                    self.a_o[i] = self.a_l[i] * self.a_r[i];
                }
                if i + 1 != self.gates {
                    self.probe("pair-closed-after-other-gates");
                }
                let k = VK::R(i);
                self.table.push(k);
                Ok(k)
            }
        }
    }

    pub fn allocate_multiplier(&mut self, val: Option<(F, F)>) -> Result<[VK; 3], ModelErr> {
        if self.witness && val.is_none() {
            return Err(ModelErr::MissingAssignment);
        }
        if self.pending.is_some() {
            self.probe("gate-while-pending");
        }
        let i = self.push_gate(val.map(|(l, r)| (l, r, l * r)));
        let ks = [VK::L(i), VK::R(i), VK::O(i)];
        self.table.extend_from_slice(&ks);
        Ok(ks)
    }

    pub fn multiply(&mut self, l: &Expr, r: &Expr) -> [VK; 3] {
        let mut ll = self.lin(l);
        let mut rl = self.lin(r);
        let t = if self.witness {
            let lv = self.eval_lin(&ll);
            let rv = self.eval_lin(&rl);
            Some((lv, rv, lv * rv))
        } else {
            None
        };
        if self.pending.is_some() {
            self.probe("gate-while-pending");
        }
        let i = self.push_gate(t);
        Self::acc(&mut ll, VK::L(i), -F::one());
        Self::acc(&mut rl, VK::R(i), -F::one());
        self.cons.push(ll);
        self.cons.push(rl);
        let ks = [VK::L(i), VK::R(i), VK::O(i)];
        self.table.extend_from_slice(&ks);
        ks
    }

    pub fn constrain(&mut self, e: &Expr) {
        let l = self.lin(e);
        if l.keys().all(|k| matches!(k, VK::One)) {
            self.probe("constraint-constants-only");
        } else if l.keys().all(|k| matches!(k, VK::One | VK::C(_))) {
            self.probe("constraint-committed-only");
        }
        if l.values().any(|c| c.is_zero()) {
            self.probe("zero-coefficient-term");
        }
        if l.keys().any(|k| !self.vk_ok(k)) {
            self.probe("forward-reference-in-constraint");
        }
        self.cons.push(l);
    }

    pub fn overwrite(&mut self, i: usize, l: F, r: F, o: F) {
        if self.witness {
            self.a_l[i] = l;
            self.a_r[i] = r;
            self.a_o[i] = o;
        }
    }

    /// Phase boundary: a half-open gate is closed (right = out = 0) and is
    /// never paired with a later allocation.
    pub fn begin_phase2(&mut self) {
        if self.n1.is_none() {
            if self.pending.is_some() {
                self.probe("pending-crossed-phase-boundary");
            }
            self.pending = None;
            self.n1 = Some(self.gates);
        }
    }

    pub fn n1(&self) -> usize {
        self.n1.unwrap_or(self.gates)
    }
    pub fn n2(&self) -> usize {
        self.gates - self.n1()
    }
    pub fn padded(&self) -> usize {
        // zero gates count as one
        std::cmp::max(1, self.gates.next_power_of_two())
    }

    /// Is the assignment a satisfying one (all gates and all constraints)?
    pub fn satisfied(&self) -> bool {
        self.first_violation().is_none()
    }

    pub fn first_violation(&self) -> Option<String> {
        assert!(self.witness);
        for i in 0..self.gates {
            if self.a_l[i] * self.a_r[i] != self.a_o[i] {
                return Some(format!("gate {}", i));
            }
        }
        for (q, c) in self.cons.iter().enumerate() {
            if !self.eval_lin(c).is_zero() {
                return Some(format!("constraint {}", q));
            }
        }
        None
    }

    /// Flattened weights for challenge `z`; committed and constant terms are
    /// moved to the right-hand side.
    pub fn weights(&self, z: F) -> (Vec<F>, Vec<F>, Vec<F>, Vec<F>, F) {
        let n = self.gates;
        let mut wl = vec![F::zero(); n];
        let mut wr = vec![F::zero(); n];
        let mut wo = vec![F::zero(); n];
        let mut wv = vec![F::zero(); self.m];
        let mut wc = F::zero();
        let mut zq = z;
        for c in &self.cons {
            for (k, co) in c {
                match k {
                    VK::L(i) => wl[*i] += zq * co,
                    VK::R(i) => wr[*i] += zq * co,
                    VK::O(i) => wo[*i] += zq * co,
                    VK::C(i) => wv[*i] -= zq * co,
                    VK::One => wc -= zq * co,
                }
            }
            zq *= z;
        }
        (wl, wr, wo, wv, wc)
    }

    /// Are all raw references of the expression within range (so the real
    /// code will not index out of bounds)?
    pub fn refs_in_range(&self, e: &Expr) -> bool {
        self.lin_checked(e)
    }

    fn vk_ok(&self, k: &VK) -> bool {
        match k {
            VK::L(i) | VK::R(i) | VK::O(i) => *i < self.gates,
            VK::C(i) => *i < self.m,
            VK::One => true,
        }
    }

    fn lin_checked(&self, e: &Expr) -> bool {
        match e {
            Expr::V(i) => *i < self.table.len(),
            Expr::Raw(vk) => self.vk_ok(vk),
            Expr::Add(a, b) | Expr::Sub(a, b) => self.lin_checked(a) && self.lin_checked(b),
            Expr::Neg(a) | Expr::Scale(a, _) => self.lin_checked(a),
            Expr::Terms(ts, _) => ts.iter().all(|(t, _)| match t {
                TermVar::V(i) => *i < self.table.len(),
                TermVar::Raw(vk) => self.vk_ok(vk),
            }),
            _ => true,
        }
    }
}

// ---------------------------------------------------------------------------
// Re-indexing of table references (used by statement deviations and by the
// minimiser).

pub fn map_expr(e: &mut Expr, f: &dyn Fn(usize) -> usize) {
    match e {
        Expr::V(i) => *i = f(*i),
        Expr::Add(a, b) | Expr::Sub(a, b) => {
            map_expr(a, f);
            map_expr(b, f);
        }
        Expr::Neg(a) | Expr::Scale(a, _) => map_expr(a, f),
        Expr::Terms(ts, _) => {
            for (t, _) in ts.iter_mut() {
                if let TermVar::V(i) = t {
                    *i = f(*i);
                }
            }
        }
        _ => {}
    }
}

fn map_val(v: &mut Val, f: &dyn Fn(usize) -> usize) {
    match v {
        Val::Lit(_) => {}
        Val::Eval(e) | Val::EvalPlus(e, _) => map_expr(e, f),
        Val::EvalMul(a, b) => {
            map_expr(a, f);
            map_expr(b, f);
        }
    }
}

pub fn map_op(op: &mut Op, f: &dyn Fn(usize) -> usize) {
    match op {
        Op::Alloc(Some(v)) => map_val(v, f),
        Op::AllocMul(Some((l, r))) => {
            map_val(l, f);
            map_val(r, f);
        }
        Op::Mul(l, r) => {
            map_expr(l, f);
            map_expr(r, f);
        }
        Op::Constrain(e) => map_expr(e, f),
        Op::Randomized(b) => {
            for o in b.iter_mut() {
                map_op(o, f);
            }
        }
        Op::OverwriteGate { l, r, o, .. } => {
            map_val(l, f);
            map_val(r, f);
            map_val(o, f);
        }
        _ => {}
    }
}

pub fn map_statement(st: &mut Statement, f: &dyn Fn(usize) -> usize) {
    for op in st.ops.iter_mut() {
        map_op(op, f);
    }
}

/// number of table entries an op produces (prover role, all assignments present)
pub fn op_outputs(op: &Op) -> usize {
    match op {
        Op::Commit { .. } => 1,
        Op::Alloc(Some(_)) => 1,
        Op::AllocMul(Some(_)) | Op::Mul(..) => 3,
        _ => 0,
    }
}

/// length of the variable table at the end of phase 1
pub fn phase1_table_len(st: &Statement) -> usize {
    st.ops.iter().map(op_outputs).sum()
}
