//! Lockstep interpreter: drives a real `Prover` / `Verifier` (and their
//! randomized-phase wrappers) with a generated program while applying the
//! same call to RefCS, comparing handles and gate counts after every call.

use crate::common::LABELS;
use crate::model::*;
use ark_bulletproofs::r1cs::{
    ConstraintSystem, LinearCombination, Prover, R1CSError, RandomizableConstraintSystem,
    RandomizedConstraintSystem, Variable, Verifier,
};
#[cfg(feature = "hooks")]
use ark_bulletproofs::r1cs::{RandomizingProver, RandomizingVerifier};
use ark_ec::AffineRepr;
use ark_ff::PrimeField;
use merlin::Transcript;
use std::cell::RefCell;
use std::rc::Rc;

#[derive(Clone, Copy, Debug, PartialEq, Eq)]
pub enum Role {
    Prover,
    Verifier,
}

/// Harness-side extension of the crate's constraint-system types.
pub trait Hooks<F: PrimeField> {
    fn hook_overwrite(&mut self, _i: usize, _l: F, _r: F, _o: F) {}
    fn hook_challenge(&mut self, _label: &'static [u8]) -> Option<F> {
        None
    }
}

#[cfg(feature = "hooks")]
impl<'g, G: AffineRepr> Hooks<G::ScalarField> for Prover<'g, G, &'g mut Transcript> {
    fn hook_overwrite(
        &mut self,
        i: usize,
        l: G::ScalarField,
        r: G::ScalarField,
        o: G::ScalarField,
    ) {
        self.verif_overwrite_gate(i, l, r, o)
    }
}

#[cfg(feature = "hooks")]
impl<'g, G: AffineRepr> Hooks<G::ScalarField> for RandomizingProver<'g, G, &'g mut Transcript> {
    fn hook_overwrite(
        &mut self,
        i: usize,
        l: G::ScalarField,
        r: G::ScalarField,
        o: G::ScalarField,
    ) {
        self.verif_overwrite_gate(i, l, r, o)
    }
    fn hook_challenge(&mut self, label: &'static [u8]) -> Option<G::ScalarField> {
        Some(self.challenge_scalar(label))
    }
}

impl<'t, G: AffineRepr> Hooks<G::ScalarField> for Verifier<G, &'t mut Transcript> {}

#[cfg(feature = "hooks")]
impl<'t, G: AffineRepr> Hooks<G::ScalarField> for RandomizingVerifier<G, &'t mut Transcript> {
    fn hook_challenge(&mut self, label: &'static [u8]) -> Option<G::ScalarField> {
        Some(self.challenge_scalar(label))
    }
}

/// Execute one op inside a randomized closure.  With the crate's guarded
/// seams the wrapper types are nameable and carry the gate-overwrite hook.
#[cfg(feature = "hooks")]
fn exec_rnd<F: PrimeField, C: ConstraintSystem<F> + Hooks<F>>(rcs: &mut C, op: &Op, sh: &mut Shared<F>) {
    exec_op(rcs, op, sh)
}

// ---- guard-off build: /repo linked WITHOUT verif-hooks (public API only) ----
// No gate overwrite (the fault generator does not draw gate faults in this
// build); the randomized-phase wrappers cannot be named, so they are driven
// through a generic delegating adapter.
#[cfg(not(feature = "hooks"))]
impl<'g, G: AffineRepr> Hooks<G::ScalarField> for Prover<'g, G, &'g mut Transcript> {}

#[cfg(not(feature = "hooks"))]
struct Rnd<'a, C>(&'a mut C);

#[cfg(not(feature = "hooks"))]
impl<'a, F: PrimeField, C: RandomizedConstraintSystem<F>> ConstraintSystem<F> for Rnd<'a, C> {
    fn transcript(&mut self) -> &mut Transcript {
        self.0.transcript()
    }
    fn multiply(&mut self, left: LinearCombination<F>, right: LinearCombination<F>) -> (Variable<F>, Variable<F>, Variable<F>) {
        self.0.multiply(left, right)
    }
    fn allocate(&mut self, assignment: Option<F>) -> Result<Variable<F>, R1CSError> {
        self.0.allocate(assignment)
    }
    fn allocate_multiplier(&mut self, input_assignments: Option<(F, F)>) -> Result<(Variable<F>, Variable<F>, Variable<F>), R1CSError> {
        self.0.allocate_multiplier(input_assignments)
    }
    fn multipliers_len(&self) -> usize {
        self.0.multipliers_len()
    }
    fn constrain(&mut self, lc: LinearCombination<F>) {
        self.0.constrain(lc)
    }
}

#[cfg(not(feature = "hooks"))]
impl<'a, F: PrimeField, C: RandomizedConstraintSystem<F>> Hooks<F> for Rnd<'a, C> {
    fn hook_challenge(&mut self, label: &'static [u8]) -> Option<F> {
        Some(self.0.challenge_scalar(label))
    }
}

#[cfg(not(feature = "hooks"))]
fn exec_rnd<F: PrimeField, C: RandomizedConstraintSystem<F>>(rcs: &mut C, op: &Op, sh: &mut Shared<F>) {
    exec_op(&mut Rnd(rcs), op, sh)
}

pub fn vk_to_var<F: PrimeField>(k: VK) -> Variable<F> {
    match k {
        VK::L(i) => Variable::MultiplierLeft(i),
        VK::R(i) => Variable::MultiplierRight(i),
        VK::O(i) => Variable::MultiplierOutput(i),
        VK::C(i) => Variable::Committed(i),
        VK::One => Variable::One(),
    }
}

pub fn var_to_string<F: PrimeField>(v: &Variable<F>) -> String {
    match v {
        Variable::MultiplierLeft(i) => format!("L{}", i),
        Variable::MultiplierRight(i) => format!("R{}", i),
        Variable::MultiplierOutput(i) => format!("O{}", i),
        Variable::Committed(i) => format!("C{}", i),
        Variable::One() => "One".into(),
        _ => "Phantom".into(),
    }
}

/// State shared between the driver and the deferred closures.
pub struct Shared<F: PrimeField> {
    pub role: Role,
    pub model: RefCS<F>,
    /// handles as returned by the real constraint system
    pub table: Vec<Variable<F>>,
    pub chals: Vec<F>,
    /// one line per API call: what was called and what came back
    pub events: Vec<String>,
    /// first disagreement between the real object and the model
    pub diverged: Option<String>,
    pub steps: usize,
    /// calls for which the prover reported MissingAssignment
    pub missing_reported: usize,
    pub record_events: bool,
    /// closures return Err(MissingAssignment) as a gadget would (default:
    /// keep interpreting, to observe the cursor)
    pub propagate_missing: bool,
}

impl<F: PrimeField> Shared<F> {
    pub fn new(role: Role) -> Self {
        Shared {
            role,
            model: RefCS::new(role == Role::Prover),
            table: vec![],
            chals: vec![],
            events: vec![],
            diverged: None,
            steps: 0,
            missing_reported: 0,
            record_events: true,
            propagate_missing: false,
        }
    }
    fn diverge(&mut self, msg: String) {
        if self.diverged.is_none() {
            self.diverged = Some(format!("step {}: {}", self.steps, msg));
        }
    }
    fn ev(&mut self, s: impl FnOnce() -> String) {
        if self.record_events {
            let l = s();
            self.events.push(l);
        }
    }
}

thread_local! {
    static OPS_USED: RefCell<std::collections::BTreeMap<&'static str, u64>> = RefCell::new(std::collections::BTreeMap::new());
}
fn used(k: &'static str) {
    OPS_USED.with(|m| *m.borrow_mut().entry(k).or_insert(0) += 1);
}
pub fn ops_used_reset() {
    OPS_USED.with(|m| m.borrow_mut().clear());
}
pub fn ops_used_take() -> Vec<(&'static str, u64)> {
    OPS_USED.with(|m| std::mem::take(&mut *m.borrow_mut()).into_iter().collect())
}

enum Built<F: PrimeField> {
    Var(Variable<F>),
    Const(F),
    Lc(LinearCombination<F>),
}

impl<F: PrimeField> Built<F> {
    fn lc(self) -> LinearCombination<F> {
        match self {
            Built::Var(v) => {
                used("From<Variable>");
                LinearCombination::from(v)
            }
            Built::Const(c) => {
                used("From<F>");
                LinearCombination::from(c)
            }
            Built::Lc(l) => l,
        }
    }
}

fn tv<F: PrimeField>(sh: &Shared<F>, t: &TermVar) -> Variable<F> {
    match t {
        TermVar::V(i) => sh.table[*i],
        TermVar::Raw(k) => vk_to_var(*k),
    }
}

/// Build the real `LinearCombination` with the crate's own operator impls,
/// choosing the impl by operand shape so that every impl gets exercised.
fn build<F: PrimeField>(sh: &Shared<F>, e: &Expr) -> Built<F> {
    match e {
        Expr::V(i) => Built::Var(sh.table[*i]),
        Expr::Raw(k) => Built::Var(vk_to_var(*k)),
        Expr::K(s) => Built::Const(s.f()),
        Expr::KC(c) => Built::Const(sh.model.coef(c)),
        Expr::Empty => {
            used("LC::default");
            Built::Lc(LinearCombination::default())
        }
        Expr::Terms(ts, by_ref) => {
            let v: Vec<(Variable<F>, F)> = ts
                .iter()
                .map(|(t, c)| (tv(sh, t), sh.model.coef(c)))
                .collect();
            if *by_ref {
                used("FromIterator<&(Variable,F)>");
                Built::Lc(v.iter().collect())
            } else {
                used("FromIterator<(Variable,F)>");
                Built::Lc(v.into_iter().collect())
            }
        }
        Expr::Neg(a) => match build(sh, a) {
            Built::Var(v) => {
                used("Neg for Variable");
                Built::Lc(-v)
            }
            Built::Const(c) => {
                used("From<F>");
                Built::Lc(-LinearCombination::from(c))
            }
            Built::Lc(l) => {
                used("Neg for LC");
                Built::Lc(-l)
            }
        },
        Expr::Scale(a, c) => {
            let c: F = sh.model.coef(c);
            match build(sh, a) {
                Built::Var(v) => {
                    used("Variable * S");
                    Built::Lc(v * c)
                }
                Built::Const(k) => {
                    used("From<F>");
                    Built::Lc(LinearCombination::from(k) * c)
                }
                Built::Lc(l) => {
                    used("LC * S");
                    Built::Lc(l * c)
                }
            }
        }
        Expr::Add(a, b) => {
            let a = build(sh, a);
            let b = build(sh, b);
            Built::Lc(match (a, b) {
                (Built::Var(x), Built::Var(y)) => {
                    used("Variable + Variable");
                    x + y
                }
                (Built::Var(x), Built::Const(c)) => {
                    used("Variable + F");
                    x + c
                }
                (Built::Var(x), Built::Lc(l)) => {
                    used("Variable + LC");
                    x + l
                }
                (Built::Const(c), y) => match {
                    used("From<F>");
                    y
                } {
                    Built::Var(v) => LinearCombination::from(c) + v,
                    Built::Const(d) => LinearCombination::from(c) + d,
                    Built::Lc(l) => LinearCombination::from(c) + l,
                },
                (Built::Lc(l), Built::Var(y)) => {
                    used("LC + Variable");
                    l + y
                }
                (Built::Lc(l), Built::Const(c)) => {
                    used("LC + F");
                    l + c
                }
                (Built::Lc(l), Built::Lc(m)) => {
                    used("LC + LC");
                    l + m
                }
            })
        }
        Expr::Sub(a, b) => {
            let a = build(sh, a);
            let b = build(sh, b);
            Built::Lc(match (a, b) {
                (Built::Var(x), Built::Var(y)) => {
                    used("Variable - Variable");
                    x - y
                }
                (Built::Var(x), Built::Const(c)) => {
                    used("Variable - F");
                    x - c
                }
                (Built::Var(x), Built::Lc(l)) => {
                    used("Variable - LC");
                    x - l
                }
                (Built::Const(c), y) => match {
                    used("From<F>");
                    y
                } {
                    Built::Var(v) => LinearCombination::from(c) - v,
                    Built::Const(d) => LinearCombination::from(c) - d,
                    Built::Lc(l) => LinearCombination::from(c) - l,
                },
                (Built::Lc(l), Built::Var(y)) => {
                    used("LC - Variable");
                    l - y
                }
                (Built::Lc(l), Built::Const(c)) => {
                    used("LC - F");
                    l - c
                }
                (Built::Lc(l), Built::Lc(m)) => {
                    used("LC - LC");
                    l - m
                }
            })
        }
    }
}

fn cmp_vars<F: PrimeField>(sh: &mut Shared<F>, what: &str, real: &[Variable<F>], pred: &[VK]) {
    let predv: Vec<Variable<F>> = pred.iter().map(|k| vk_to_var(*k)).collect();
    if real != &predv[..] {
        let r: Vec<String> = real.iter().map(var_to_string).collect();
        let p: Vec<String> = predv.iter().map(var_to_string).collect();
        sh.diverge(format!(
            "{}: real returned {:?}, model predicts {:?}",
            what, r, p
        ));
    }
}

/// Execute one non-commit, non-randomized op on a real constraint system and
/// on the model.
pub fn exec_op<F: PrimeField, C: ConstraintSystem<F> + Hooks<F>>(
    cs: &mut C,
    op: &Op,
    sh: &mut Shared<F>,
) {
    sh.steps += 1;
    let prover = sh.role == Role::Prover;
    // a program may only refer to handles the real object has returned so far;
    // if the real and model tables have drifted apart (a divergence already
    // reported), stop interpreting instead of indexing out of range
    let refs_ok = |sh: &Shared<F>, e: &Expr| sh.model.refs_in_range(e) && e.max_table().map(|i| i < sh.table.len()).unwrap_or(true);
    let val_ok = |sh: &Shared<F>, v: &Val| match v {
        Val::Lit(_) => true,
        Val::Eval(e) | Val::EvalPlus(e, _) => refs_ok(sh, e),
        Val::EvalMul(a, b) => refs_ok(sh, a) && refs_ok(sh, b),
    };
    let ok = match op {
        Op::Alloc(Some(v)) => val_ok(sh, v),
        Op::AllocMul(Some((l, r))) => val_ok(sh, l) && val_ok(sh, r),
        Op::Mul(l, r) => refs_ok(sh, l) && refs_ok(sh, r),
        // a constraint may name, through a hand-built handle, a commitment or gate that only
        // comes into existence later (forward reference): only table references are checked
        Op::Constrain(e) => e.max_table().map(|i| i < sh.table.len() && i < sh.model.table.len()).unwrap_or(true),
        Op::OverwriteGate { gate, l, r, o } => *gate < sh.model.gates && val_ok(sh, l) && val_ok(sh, r) && val_ok(sh, o),
        _ => true,
    };
    if !ok {
        sh.diverge(format!("{}: the program refers to a handle or gate that does not exist on this role at this point (execution order or numbering differs from the model)", op.kind()));
        return;
    }
    match op {
        Op::Alloc(val) => {
            let a: Option<F> = if prover {
                val.as_ref().map(|v| sh.model.eval_val(v))
            } else {
                None
            };
            let real = cs.allocate(a);
            // the verifier-role model ignores assignments
            let pred = sh.model.allocate(if prover { a } else { None });
            match (real, pred) {
                (Ok(v), Ok(k)) => {
                    cmp_vars(sh, "allocate", &[v], &[k]);
                    sh.table.push(v);
                    sh.ev(|| format!("allocate -> {}", var_to_string(&v)));
                }
                (Err(R1CSError::MissingAssignment), Err(ModelErr::MissingAssignment)) => {
                    sh.missing_reported += 1;
                    sh.ev(|| "allocate(None) -> MissingAssignment".into());
                }
                (r, p) => {
                    let rs = match &r {
                        Ok(v) => var_to_string(v),
                        Err(e) => format!("Err({:?})", e),
                    };
                    sh.diverge(format!("allocate: real {} vs model {:?}", rs, p));
                    if let Ok(v) = r {
                        sh.table.push(v);
                    }
                }
            }
        }
        Op::AllocMul(val) => {
            let a: Option<(F, F)> = if prover {
                val.as_ref()
                    .map(|(l, r)| (sh.model.eval_val(l), sh.model.eval_val(r)))
            } else {
                None
            };
            let real = cs.allocate_multiplier(a);
            let pred = sh.model.allocate_multiplier(if prover { a } else { None });
            match (real, pred) {
                (Ok((l, r, o)), Ok(ks)) => {
                    cmp_vars(sh, "allocate_multiplier", &[l, r, o], &ks);
                    sh.table.extend_from_slice(&[l, r, o]);
                    sh.ev(|| format!("allocate_multiplier -> {}", var_to_string(&l)));
                }
                (Err(R1CSError::MissingAssignment), Err(ModelErr::MissingAssignment)) => {
                    sh.missing_reported += 1;
                    sh.ev(|| "allocate_multiplier(None) -> MissingAssignment".into());
                }
                (r, p) => {
                    let rs = match &r {
                        Ok((l, _, _)) => var_to_string(l),
                        Err(e) => format!("Err({:?})", e),
                    };
                    sh.diverge(format!("allocate_multiplier: real {} vs model {:?}", rs, p));
                    if let Ok((l, r, o)) = r {
                        sh.table.extend_from_slice(&[l, r, o]);
                    }
                }
            }
        }
        Op::Mul(le, re) => {
            let l = build(sh, le).lc();
            let r = build(sh, re).lc();
            let (lv, rv, ov) = cs.multiply(l, r);
            let ks = sh.model.multiply(le, re);
            cmp_vars(sh, "multiply", &[lv, rv, ov], &ks);
            sh.table.extend_from_slice(&[lv, rv, ov]);
            sh.ev(|| format!("multiply -> {}", var_to_string(&lv)));
        }
        Op::Constrain(e) => {
            let l = build(sh, e).lc();
            cs.constrain(l);
            sh.model.constrain(e);
            sh.ev(|| "constrain".into());
        }
        Op::UserData { label, data } => {
            cs.transcript().append_message(LABELS[*label], data);
            sh.ev(|| format!("userdata {}", label));
        }
        Op::Challenge { label } => match cs.hook_challenge(LABELS[*label]) {
            Some(c) => {
                sh.chals.push(c);
                sh.model.chals.push(c);
                sh.ev(|| format!("challenge {}", label));
            }
            None => sh.diverge("challenge requested outside the randomized phase".into()),
        },
        Op::OverwriteGate { gate, l, r, o } => {
            if prover {
                let (lv, rv, ov) = (
                    sh.model.eval_val(l),
                    sh.model.eval_val(r),
                    sh.model.eval_val(o),
                );
                cs.hook_overwrite(*gate, lv, rv, ov);
                sh.model.overwrite(*gate, lv, rv, ov);
                sh.ev(|| format!("overwrite gate {}", gate));
            }
        }
        Op::Commit { .. } | Op::Randomized(_) => {
            sh.diverge("commit / randomized inside a randomized block is not expressible".into())
        }
    }
    let real_len = cs.multipliers_len();
    if real_len != sh.model.gates {
        let g = sh.model.gates;
        sh.diverge(format!(
            "multipliers_len: real {} vs model {} after {}",
            real_len,
            g,
            op.kind()
        ));
    }
}

/// Top-level driver for the prover role.  Returns the commitments produced.
pub fn drive_prover<'g, G: AffineRepr>(
    cs: &mut Prover<'g, G, &'g mut Transcript>,
    ops: &[Op],
    sh: &Rc<RefCell<Shared<G::ScalarField>>>,
) -> Vec<G> {
    let mut commitments = vec![];
    for op in ops {
        step_prover(cs, op, sh, &mut commitments);
    }
    commitments
}

/// One top-level API call of the prover role (so that a scheduler can
/// interleave the calls of several live sessions).
pub fn step_prover<'g, G: AffineRepr>(
    cs: &mut Prover<'g, G, &'g mut Transcript>,
    op: &Op,
    sh: &Rc<RefCell<Shared<G::ScalarField>>>,
    commitments: &mut Vec<G>,
) {
    {
        {
        match op {
            Op::Commit { v, r } => {
                let mut s = sh.borrow_mut();
                s.steps += 1;
                let (vf, rf) = (v.f(), r.f());
                let (c, var) = cs.commit(vf, rf);
                let k = s.model.commit(Some((vf, rf)));
                cmp_vars(&mut s, "commit", &[var], &[k]);
                s.table.push(var);
                s.ev(|| format!("commit -> {}", var_to_string(&var)));
                commitments.push(c);
                let rl = cs.multipliers_len();
                if rl != s.model.gates {
                    let g = s.model.gates;
                    s.diverge(format!("multipliers_len: real {} vs model {} after commit", rl, g));
                }
            }
            Op::Randomized(block) => {
                let block = block.clone();
                let shc = sh.clone();
                sh.borrow_mut().steps += 1;
                let r = cs.specify_randomized_constraints(move |rcs| {
                    let mut s = shc.borrow_mut();
                    s.model.begin_phase2();
                    let before = s.missing_reported;
                    for op in &block {
                        exec_rnd(rcs, op, &mut s);
                        if s.propagate_missing && s.missing_reported > before {
                            return Err(R1CSError::MissingAssignment);
                        }
                    }
                    Ok(())
                });
                if r.is_err() {
                    sh.borrow_mut()
                        .diverge("specify_randomized_constraints returned Err".into());
                }
                sh.borrow_mut().ev(|| "randomized (deferred)".into());
            }
            other => exec_op(cs, other, &mut sh.borrow_mut()),
        }
        }
    }
}

/// Top-level driver for the verifier role.
pub fn drive_verifier<'t, G: AffineRepr>(
    cs: &mut Verifier<G, &'t mut Transcript>,
    ops: &[Op],
    commitments: &[G],
    sh: &Rc<RefCell<Shared<G::ScalarField>>>,
) {
    let mut ci = 0usize;
    for op in ops {
        match op {
            Op::Commit { .. } => {
                let mut s = sh.borrow_mut();
                s.steps += 1;
                let c = if ci < commitments.len() {
                    commitments[ci]
                } else {
                    G::zero()
                };
                ci += 1;
                let var = cs.commit(c);
                let k = s.model.commit(None);
                cmp_vars(&mut s, "commit", &[var], &[k]);
                s.table.push(var);
                s.ev(|| format!("commit -> {}", var_to_string(&var)));
            }
            Op::Randomized(block) => {
                let block = block.clone();
                let shc = sh.clone();
                sh.borrow_mut().steps += 1;
                let r = cs.specify_randomized_constraints(move |rcs| {
                    let mut s = shc.borrow_mut();
                    s.model.begin_phase2();
                    let before = s.missing_reported;
                    for op in &block {
                        exec_rnd(rcs, op, &mut s);
                        if s.propagate_missing && s.missing_reported > before {
                            return Err(R1CSError::MissingAssignment);
                        }
                    }
                    Ok(())
                });
                if r.is_err() {
                    sh.borrow_mut()
                        .diverge("specify_randomized_constraints returned Err".into());
                }
                sh.borrow_mut().ev(|| "randomized (deferred)".into());
            }
            other => exec_op(cs, other, &mut sh.borrow_mut()),
        }
    }
}
