//! Runner: deterministic parallel execution of run indices, order-independent
//! aggregation, evidence, replay files, known findings.

use crate::common::*;
use serde_json::{json, Value};
use std::collections::{BTreeMap, BTreeSet};
use std::sync::atomic::{AtomicU64, Ordering};
use std::sync::Mutex;
use std::time::Instant;

#[derive(Clone, Copy, Debug, PartialEq, Eq)]
pub enum Tier {
    Quick,
    Thorough,
}

impl Tier {
    pub fn name(&self) -> &'static str {
        match self {
            Tier::Quick => "quick",
            Tier::Thorough => "thorough",
        }
    }
    pub fn pick<T>(&self, q: T, t: T) -> T {
        match self {
            Tier::Quick => q,
            Tier::Thorough => t,
        }
    }
}

pub struct Ctx {
    pub prop: &'static str,
    pub tier: Tier,
    pub seed: u64,
    pub workers: usize,
    pub start: Instant,
    pub verif_dir: String,
}

#[derive(Clone, Debug)]
pub struct Violation {
    pub run: u64,
    pub oracle: String,
    /// stable identifier of *what* fails (matched against known findings)
    pub signature: String,
    pub detail: String,
    /// check-specific case description sufficient to re-execute
    pub case: Value,
}

/// Order-independent, mergeable statistics.
#[derive(Default)]
pub struct Stats {
    pub evaluations: u64,
    pub distinct: BTreeSet<u64>,
    pub steps: u64,
    pub faults: BTreeMap<String, u64>,
    pub probes: BTreeMap<String, u64>,
    pub samples: BTreeMap<u64, Value>,
    pub violations: Vec<Violation>,
    /// XOR of H(run index, event-log digest): equal iff all runs equal
    pub digest: [u8; 32],
    pub counters: BTreeMap<String, u64>,
}

impl Stats {
    pub fn merge(&mut self, o: Stats) {
        self.evaluations += o.evaluations;
        self.distinct.extend(o.distinct);
        self.steps += o.steps;
        for (k, v) in o.faults {
            *self.faults.entry(k).or_insert(0) += v;
        }
        for (k, v) in o.probes {
            *self.probes.entry(k).or_insert(0) += v;
        }
        for (k, v) in o.counters {
            *self.counters.entry(k).or_insert(0) += v;
        }
        for (k, v) in o.samples {
            self.samples.insert(k, v);
            while self.samples.len() > 4 {
                let last = *self.samples.keys().next_back().unwrap();
                self.samples.remove(&last);
            }
        }
        self.violations.extend(o.violations);
        for i in 0..32 {
            self.digest[i] ^= o.digest[i];
        }
    }
    pub fn eval(&mut self) {
        self.evaluations += 1;
    }
    pub fn fault(&mut self, k: &str) {
        *self.faults.entry(k.to_string()).or_insert(0) += 1;
    }
    pub fn fault_n(&mut self, k: &str, n: u64) {
        *self.faults.entry(k.to_string()).or_insert(0) += n;
    }
    pub fn probe(&mut self, k: &str) {
        *self.probes.entry(k.to_string()).or_insert(0) += 1;
    }
    pub fn probe_n(&mut self, k: &str, n: u64) {
        if n > 0 {
            *self.probes.entry(k.to_string()).or_insert(0) += n;
        }
    }
    pub fn count(&mut self, k: &str, n: u64) {
        *self.counters.entry(k.to_string()).or_insert(0) += n;
    }
    /// register a non-trivial case by its distinctness signature
    pub fn distinct(&mut self, sig: &str) {
        let d = sha3_256(sig.as_bytes());
        let mut a = [0u8; 8];
        a.copy_from_slice(&d[..8]);
        self.distinct.insert(u64::from_le_bytes(a));
    }
    pub fn sample(&mut self, run: u64, v: Value) {
        if self.samples.len() < 4 || run < *self.samples.keys().next_back().unwrap() {
            self.samples.insert(run, v);
            while self.samples.len() > 4 {
                let last = *self.samples.keys().next_back().unwrap();
                self.samples.remove(&last);
            }
        }
    }
    /// fold the event-log digest of one run
    pub fn log_digest(&mut self, run: u64, events: &[u8]) {
        let mut b = run.to_le_bytes().to_vec();
        b.extend_from_slice(&sha3_256(events));
        let d = sha3_256(&b);
        for i in 0..32 {
            self.digest[i] ^= d[i];
        }
    }
    pub fn violate(&mut self, v: Violation) {
        self.violations.push(v);
    }
}

/// Run `f(i, &mut stats)` for all i in 0..n on `workers` threads.  Workers
/// only partition run indices; aggregation is order-independent.
pub fn par_run<Fun>(n: u64, workers: usize, f: Fun) -> Stats
where
    Fun: Fn(u64, &mut Stats) + Sync,
{
    let next = AtomicU64::new(0);
    let total = Mutex::new(Stats::default());
    let w = std::cmp::max(1, workers);
    std::thread::scope(|s| {
        for _ in 0..w {
            s.spawn(|| {
                let mut local = Stats::default();
                loop {
                    let i = next.fetch_add(1, Ordering::Relaxed);
                    if i >= n {
                        break;
                    }
                    let r = catch(|| {
                        let mut st = Stats::default();
                        f(i, &mut st);
                        st
                    });
                    match r {
                        Ok(st) => local.merge(st),
                        Err(msg) => {
                            // a panic escaping a case is a harness error unless
                            // the case attributed it; keep it loud
                            local.count("harness_panics", 1);
                            local.violate(Violation {
                                run: i,
                                oracle: "harness".into(),
                                signature: format!("harness-panic: {}", msg),
                                detail: format!("uncaught panic in run {}: {}", i, msg),
                                case: json!({"run": i}),
                            });
                        }
                    }
                }
                total.lock().unwrap().merge(local);
            });
        }
    });
    let mut t = total.into_inner().unwrap();
    t.violations.sort_by(|a, b| a.run.cmp(&b.run).then(a.signature.cmp(&b.signature)));
    t
}

#[derive(Clone, Debug)]
pub struct KnownFinding {
    pub status: String,
    pub property: String,
    pub signature: String,
    pub description: String,
}

pub fn load_known(verif_dir: &str) -> Vec<KnownFinding> {
    let p = format!("{}/known_findings.json", verif_dir);
    let Ok(s) = std::fs::read_to_string(&p) else {
        return vec![];
    };
    let Ok(v) = serde_json::from_str::<Value>(&s) else {
        return vec![];
    };
    let mut out = vec![];
    if let Some(arr) = v.get("findings").and_then(|a| a.as_array()) {
        for e in arr {
            out.push(KnownFinding {
                status: e["status"].as_str().unwrap_or("").to_string(),
                property: e["property"].as_str().unwrap_or("").to_string(),
                signature: e["signature"].as_str().unwrap_or("").to_string(),
                description: e["description"].as_str().unwrap_or("").to_string(),
            });
        }
    }
    out
}

pub struct Report {
    pub level: &'static str,
    pub rule: String,
    pub exhaustive: bool,
    pub assumptions: Vec<String>,
    pub real_components: Vec<&'static str>,
    pub simulated_components: Vec<&'static str>,
    pub extra: Value,
}

/// Probes every run of a check is expected to hit at least once (reach
/// failures are reported in the evidence as `probes_zero`, never hidden).
pub fn expected_probes(prop: &str) -> &'static [&'static str] {
    match prop {
        "C01" => &["zero-gates", "one-gate", "gates-power-of-two", "gates-one-past-power-of-two", "gates-one-short-of-power-of-two", "gates-only-in-phase2", "phase2-present-gate-free", "prover-capacity-at-threshold", "verifier-capacity-at-threshold", "non-default-bases", "pending-crossed-phase-boundary", "commit-after-constrain", "commit-after-gate", "gate-while-pending", "pair-closed-after-other-gates", "constraint-constants-only", "constraint-committed-only", "zero-coefficient-term", "forward-reference-in-constraint", "interleaved-sessions-equal-solo"],
        "C02" => &["cell:F10-wire-value:p1:unsatisfied", "cell:F10-wire-value:p2:unsatisfied", "cell:F10-gate-out:p1:unsatisfied", "cell:F10-gate-out:p2:unsatisfied", "cell:F10-gate-left:p1:unsatisfied", "cell:F10-gate-left:p2:unsatisfied", "cell:F10-gate-right:p1:unsatisfied", "cell:F10-gate-right:p2:unsatisfied", "cell:F10-constant:p1:unsatisfied", "cell:F10-constant:p2:unsatisfied", "cell:F10-commit-value:p1:unsatisfied", "cell:F10-wire-value:p1:still-satisfied", "cell:F10-gate-out-pair-cancelling:p1:unsatisfied", "batch-leg-rejected", "batch-pair-with-complementary-error"],
        "C03" => &["agree:accept:all", "adversary:agree:accept:a1", "adversary:agree:reject:a0", "adversary:identity-commitment-produced", "relation-b-repaired", "adversary:mass-move:u-block-empty", "adversary:mass-move:u-block-non-empty"],
        "C04" => &["rejected-at-decoding", "tampered-proof-still-decoded", "decoded-to-identical-object"],
        "C05" => &["twin-accepted", "misdelivery-same-bound-context(no-demand)"],
        "C06" => &["followup-equal", "rejected-delivery-history-checked", "stopped-at-identity-point", "batch-member-histories-checked"],
        "C07" => &["batch-rng-used", "scenario:empty-batch:all-valid", "scenario:all-honest:all-valid", "scenario:duplicate-delivery:all-valid", "scenario:plus-minus-d:a:some-invalid", "scenario:plus-minus-d:b:some-invalid", "scenario:zero-sum-triple:some-invalid", "scenario:affine-weight-cancelling-triple:some-invalid", "scenario:quadratic-weight-cancelling-quadruple:some-invalid", "scenario:misdelivered-member:some-invalid", "scenario:one-bad-witness:some-invalid", "scenario:one-tampered:some-invalid"],
        "C08" => &["garbage-rejected-at-decoding", "garbage-decoded", "stream-read-fault-fired", "stream-write-fault-fired", "guard-off-build-exercised"],
        "C09" => &["keying-ok", "independence-checked", "attribution-total-and-injective", "opened-against-refprover", "statement-fixed-component-equal(allowed)", "large-circuit-sampled-attribution", "large-circuit-opened-against-refprover"],
        "C10" => &["agree-accept", "agree-reject", "degenerate-identity-cross-term"],
        "C11" => &["bad-point:no-point-for-coordinate", "bad-point:both-flag-bits", "bad-point:small-order-point", "bad-point:P+T", "bad-point:cancelling-pairs"],
        "C12" => &["increase-below-or-at-current(no-op)", "view-n0-m>=2", "pinned-digest-match"],
        "C16" => &["missing-assignment-reported", "full-session-phase2-lockstep", "phase2-missing-assignment-surfaces-from-prove", "pending-crossed-phase-boundary", "pair-closed-after-other-gates", "gate-while-pending"],
        "C17" => &["capacity==threshold", "capacity==threshold-1", "proof-bytes-equal-across-slack", "store-with-later-smaller-request"],
        "C18" => &["wrong-statement-rejected", "fresh-session-follows-recorded-schedule", "generator-digests-reproduced"],
        _ => &[],
    }
}

/// true in the guard-off leg: binary bpsim-off (sources of this crate compiled
/// without `hooks`, /repo linked without verif-hooks), started by ./check with BPSIM_LEG=off
pub fn off_leg() -> bool {
    std::env::var("BPSIM_LEG").map(|v| v == "off").unwrap_or(false)
}

pub const REAL: [&str; 6] = [
    "ark-bulletproofs (all of /repo, built from the working tree; main leg with feature verif-hooks, guard-off leg without it)",
    "arkworks field/group arithmetic, MSM, (de)serialisation",
    "sha3",
    "rand_chacha",
    "Merlin STROBE + transcript logic (vendored, instrumented additively)",
    "clear_on_drop",
];

/// Write evidence, replay files; print VIOLATION / KNOWN-FINDING lines;
/// return the process exit code.
pub fn finish(ctx: &Ctx, stats: Stats, rep: Report) -> i32 {
    let wall = ctx.start.elapsed().as_secs_f64();
    let known = load_known(&ctx.verif_dir);
    let mut new_violations: Vec<&Violation> = vec![];
    let mut known_hits: BTreeMap<String, (u64, String)> = BTreeMap::new();
    for v in &stats.violations {
        let k = known.iter().find(|k| {
            k.status == "known" && k.property == ctx.prop && v.signature.starts_with(&k.signature)
        });
        match k {
            Some(k) => {
                let e = known_hits
                    .entry(k.signature.clone())
                    .or_insert((0, k.description.clone()));
                e.0 += 1;
            }
            None => new_violations.push(v),
        }
    }
    for (sig, (n, desc)) in &known_hits {
        println!(
            "KNOWN-FINDING: property={} {} [{}] ({} occurrences this run)",
            ctx.prop, desc, sig, n
        );
    }
    let harness_err = stats.counters.get("harness_panics").copied().unwrap_or(0) > 0;
    let mut code = 0;
    let rdir = format!("{}/replays/{}", ctx.verif_dir, ctx.prop);
    let mut replay_paths = vec![];
    if !new_violations.is_empty() {
        let _ = std::fs::create_dir_all(&rdir);
        // report at most 5 distinct signatures
        let mut seen = BTreeSet::new();
        for v in &new_violations {
            if !seen.insert(v.signature.clone()) || seen.len() > 5 {
                continue;
            }
            let path = format!("{}/{}{}-{}.json", rdir, if off_leg() { "off-" } else { "" }, ctx.seed, v.run);
            // minimise: keep a candidate only if the same oracle still fails
            let oracle = v.oracle.clone();
            let prop = ctx.prop;
            let (min_case, tried) = crate::shrink::minimise(
                v.case.clone(),
                &|c| crate::checks::shrink_case(prop, c),
                &|c| {
                    crate::common::catch(|| crate::checks::replay(prop, c))
                        .ok()
                        .flatten()
                        .map(|vs| vs.iter().any(|x| x.oracle == oracle))
                        .unwrap_or(false)
                },
                300,
            );
            let minimised = min_case != v.case;
            let body = json!({
                "minimised": minimised,
                "minimisation_candidates_tried": tried,
                "original_case": if minimised { v.case.clone() } else { Value::Null },
                "property": ctx.prop,
                "build": if crate::HOOKS { "guard-on" } else { "guard-off" },
                "seed": ctx.seed,
                "run": v.run,
                "tier": ctx.tier.name(),
                "oracle": v.oracle,
                "signature": v.signature,
                "detail": v.detail,
                "case": min_case,
            });
            let _ = std::fs::write(&path, serde_json::to_string_pretty(&body).unwrap());
            println!("VIOLATION property={} replay={}", ctx.prop, path);
            println!("  oracle: {}", v.oracle);
            println!("  what:   {}", v.detail);
            replay_paths.push(path);
        }
        code = 1;
    }
    if harness_err {
        eprintln!("HARNESS ERROR: a case panicked outside any attributed call");
        code = 2;
    }
    let runs_per_hour = if wall > 0.0 {
        (stats.evaluations as f64) * 3600.0 / wall
    } else {
        0.0
    };
    let mut probes_all = stats.probes.clone();
    // summary of the guard-off leg that ./check ran just before this one
    let off_path = format!("{}/sim/target/off-legs/{}.json", ctx.verif_dir, ctx.prop);
    let mut off_summary = Value::Null;
    if !off_leg() && std::env::var("BPSIM_OFF_LEG_RAN").is_ok() {
        if let Some(v) = std::fs::read_to_string(&off_path).ok().and_then(|s| serde_json::from_str::<Value>(&s).ok()) {
            off_summary = json!({
                "what": "the same check, same sources, compiled without the harness feature `hooks`, i.e. against /repo with the verif-hooks guard OFF (what users link); a slice of the quick budget; gate-overwrite faults are not available there",
                "evaluations": v["coverage"]["evaluations"], "distinct_nontrivial": v["coverage"]["distinct_nontrivial"],
                "logical_steps": v["coverage"]["logical_steps"], "fault_kinds_fired": v["coverage"]["fault_kinds_fired"],
                "event_log_digest": v["coverage"]["event_log_digest"], "violations": v["violations"], "wall_s": v["wall_s"], "seed": v["seed"],
            });
            *probes_all.entry("guard-off-leg-ran".to_string()).or_insert(0) += v["coverage"]["evaluations"].as_u64().unwrap_or(0);
        }
        let _ = std::fs::remove_file(&off_path);
    }
    for p in expected_probes(ctx.prop) {
        probes_all.entry(p.to_string()).or_insert(0);
    }
    let probes_zero: Vec<String> = probes_all.iter().filter(|(_, v)| **v == 0).map(|(k, _)| k.clone()).collect();
    let samples: Vec<Value> = stats.samples.values().cloned().collect();
    let mut coverage = json!({
        "evaluations": stats.evaluations,
        "distinct_nontrivial": stats.distinct.len(),
        "rule": rep.rule,
        "samples": samples,
        "exhaustive": rep.exhaustive,
        "logical_steps": stats.steps,
        "simulated_time": "not applicable: the system under test has no clock, timer or deadline; logical steps (API calls + deliveries + faults) are reported instead",
        "runs_per_hour": runs_per_hour as u64,
        "seeds": {"VERIF_SEED": ctx.seed, "derivation": "run i uses sub_rng(VERIF_SEED, property, i, stream)"},
        "fault_kinds_fired": stats.faults,
        "probes": probes_all,
        "probes_zero": probes_zero,
        "counters": stats.counters,
        "event_log_digest": hex(&stats.digest),
        "components_real": rep.real_components,
        "components_simulated_or_model": rep.simulated_components,
        "known_findings_hit": known_hits.iter().map(|(k, v)| json!({"signature": k, "occurrences": v.0})).collect::<Vec<_>>(),
        "replays": replay_paths,
        "workers": ctx.workers,
    });
    if !off_summary.is_null() {
        coverage["guard_off_leg"] = off_summary;
    }
    if let (Some(c), Some(e)) = (coverage.as_object_mut(), rep.extra.as_object()) {
        for (k, v) in e {
            c.insert(k.clone(), v.clone());
        }
    }
    let ev = json!({
        "property_id": ctx.prop,
        "tier": ctx.tier.name(),
        "seed": ctx.seed,
        "level": rep.level,
        "coverage": coverage,
        "assumptions": rep.assumptions,
        "wall_s": wall,
        "violations": new_violations.len(),
    });
    let edir = if off_leg() { format!("{}/sim/target/off-legs", ctx.verif_dir) } else { format!("{}/evidence", ctx.verif_dir) };
    let _ = std::fs::create_dir_all(&edir);
    let path = format!("{}/{}.json", edir, ctx.prop);
    if let Err(e) = std::fs::write(&path, serde_json::to_string_pretty(&ev).unwrap()) {
        eprintln!("cannot write evidence {}: {}", path, e);
        return 2;
    }
    println!(
        "{} {}{} seed={} evaluations={} distinct={} steps={} violations={} known={} wall={:.1}s digest={}",
        ctx.prop,
        ctx.tier.name(),
        if off_leg() { "[guard-off leg]" } else { "" },
        ctx.seed,
        stats.evaluations,
        stats.distinct.len(),
        stats.steps,
        new_violations.len(),
        known_hits.len(),
        wall,
        &hex(&stats.digest)[..16]
    );
    code
}

pub fn base_assumptions() -> Vec<String> {
    vec![
        "seeded search: a clean run is evidence, not proof".into(),
        "trusted: arkworks arithmetic and element (de)serialisation, SHA3, ChaCha, STROBE, the reference models".into(),
        "cryptographic expectations hold up to ~2^-250 per case".into(),
    ]
}
