//! C08 leg against the crate built WITHOUT the `verif-hooks` feature.
//!
//! Public API only.  Enumerates (|L|, |R|) shapes, identity points and random
//! garbage against small circuits through `verify` and `batch_verify`, under
//! `catch_unwind`.  Prints one line per panic:
//!   PANIC <curve> <gates> <nl> <nr> <via> :: <message>
//! and a final `DONE cases=<n> panics=<k>`; exit code 0 (no panic) / 1.
//!
//! usage: bpsim-nohooks grid <quick|thorough>
//!        bpsim-nohooks one <curve> <gates> <nl> <nr> <via>

use ark_bulletproofs::r1cs::{batch_verify, ConstraintSystem, Prover, R1CSProof, Verifier};
use ark_bulletproofs::{BulletproofGens, PedersenGens};
use ark_ec::{AffineRepr, CurveGroup};
use ark_serialize::CanonicalSerialize;
use merlin::Transcript;
use rand_chacha::ChaChaRng;
use rand_core::SeedableRng;

fn catch<T>(f: impl FnOnce() -> T) -> Result<T, String> {
    match std::panic::catch_unwind(std::panic::AssertUnwindSafe(f)) {
        Ok(v) => Ok(v),
        Err(e) => Err(if let Some(s) = e.downcast_ref::<&str>() {
            s.to_string()
        } else if let Some(s) = e.downcast_ref::<String>() {
            s.clone()
        } else {
            "panic".into()
        }),
    }
}

fn circuit<G: AffineRepr, CS: ConstraintSystem<G::ScalarField>>(cs: &mut CS, gates: usize, prover: bool) {
    for i in 0..gates {
        let a = if prover {
            Some((G::ScalarField::from(i as u64 + 2), G::ScalarField::from(3u64)))
        } else {
            None
        };
        let _ = cs.allocate_multiplier(a);
    }
}

fn enc<G: AffineRepr>(p: &G) -> Vec<u8> {
    let mut v = vec![];
    p.serialize_compressed(&mut v).unwrap();
    v
}

/// Replace the two point lists of an honest encoding by lists of the given lengths.
fn reshape<G: AffineRepr>(bytes: &[u8], k: usize, nl: usize, nr: usize) -> Vec<u8> {
    let ps = G::generator().compressed_size();
    let head = 11 * ps + 3 * 32;
    let tail_off = head + 8 + k * ps + 8 + k * ps;
    let mut out = bytes[..head].to_vec();
    let pt = |i: u64| enc(&(G::generator().into_group() * G::ScalarField::from(i + 2)).into_affine());
    out.extend((nl as u64).to_le_bytes());
    for i in 0..nl {
        out.extend(pt(i as u64));
    }
    out.extend((nr as u64).to_le_bytes());
    for i in 0..nr {
        out.extend(pt(100 + i as u64));
    }
    out.extend_from_slice(&bytes[tail_off..]);
    out
}

fn one_case<G: AffineRepr>(curve: &str, gates: usize, nl: usize, nr: usize, via: &str) -> Option<String> {
    let pc = PedersenGens::<G>::default();
    let padded = std::cmp::max(1, gates.next_power_of_two());
    let k = padded.trailing_zeros() as usize;
    let bp = BulletproofGens::<G>::new(padded, 1);
    let mut tp = Transcript::new(b"nohooks");
    let (comm, proof) = {
        let mut p = Prover::new(&pc, &mut tp);
        let (c, _v) = p.commit(G::ScalarField::from(6u64), G::ScalarField::from(13u64));
        circuit::<G, _>(&mut p, gates, true);
        let mut rng = ChaChaRng::from_seed([7u8; 32]);
        (c, p.prove(&mut rng, &bp).ok()?)
    };
    let honest = proof.to_bytes().ok()?;
    let hostile_bytes = reshape::<G>(&honest, k, nl, nr);
    let hostile = R1CSProof::<G>::from_bytes(&hostile_bytes).ok()?;
    let r = catch(|| {
        if via == "verify" {
            let mut tv = Transcript::new(b"nohooks");
            let mut v = Verifier::<G, _>::new(&mut tv);
            let _ = v.commit(comm);
            circuit::<G, _>(&mut v, gates, false);
            let _ = v.verify(&hostile, &pc, &bp);
        } else {
            let mut t1 = Transcript::new(b"nohooks");
            let mut t2 = Transcript::new(b"nohooks");
            let mut v1 = Verifier::<G, _>::new(&mut t1);
            let _ = v1.commit(comm);
            circuit::<G, _>(&mut v1, gates, false);
            let mut v2 = Verifier::<G, _>::new(&mut t2);
            let _ = v2.commit(comm);
            circuit::<G, _>(&mut v2, gates, false);
            let mut rng = ChaChaRng::from_seed([9u8; 32]);
            let _ = batch_verify(&mut rng, vec![(v1, &proof), (v2, &hostile)], &pc, &bp);
        }
    });
    match r {
        Ok(()) => None,
        Err(m) => Some(format!("PANIC {} {} {} {} {} :: {}", curve, gates, nl, nr, via, m)),
    }
}

fn dispatch(curve: &str, gates: usize, nl: usize, nr: usize, via: &str) -> Option<String> {
    match curve {
        "secq256k1" => one_case::<ark_secq256k1::Affine>(curve, gates, nl, nr, via),
        "zorro" => one_case::<ark_bulletproofs::curve::zorro::G1Affine>(curve, gates, nl, nr, via),
        _ => one_case::<ark_curve25519::EdwardsAffine>(curve, gates, nl, nr, via),
    }
}

fn main() {
    std::panic::set_hook(Box::new(|_| {}));
    let args: Vec<String> = std::env::args().collect();
    if args.len() >= 7 && args[1] == "one" {
        let r = dispatch(&args[2], args[3].parse().unwrap_or(0), args[4].parse().unwrap_or(0), args[5].parse().unwrap_or(0), &args[6]);
        if let Some(l) = r {
            println!("{}", l);
            println!("DONE cases=1 panics=1");
            std::process::exit(1);
        }
        println!("DONE cases=1 panics=0");
        return;
    }
    let thorough = args.get(2).map(|s| s == "thorough").unwrap_or(false);
    let mut lens: Vec<usize> = (0..=if thorough { 8 } else { 5 }).collect();
    lens.extend([31usize, 32, 33, 64]);
    let gates: Vec<usize> = if thorough { vec![0, 1, 2, 3, 4, 5, 7, 8, 9, 16, 17] } else { vec![0, 1, 2, 3, 4, 7, 8] };
    let mut cases = vec![];
    for curve in ["secq256k1", "zorro", "curve25519"] {
        for g in &gates {
            for nl in &lens {
                for nr in &lens {
                    if (*nl > 8 && *nr > 8 && nl != nr) || ((*nl > 8 || *nr > 8) && *g > 2) {
                        continue;
                    }
                    for via in ["verify", "batch"] {
                        cases.push((curve, *g, *nl, *nr, via));
                    }
                }
            }
        }
    }
    let n = cases.len();
    let next = std::sync::atomic::AtomicUsize::new(0);
    let out = std::sync::Mutex::new(vec![]);
    let workers = std::thread::available_parallelism().map(|x| x.get()).unwrap_or(4);
    std::thread::scope(|s| {
        for _ in 0..workers {
            s.spawn(|| loop {
                let i = next.fetch_add(1, std::sync::atomic::Ordering::Relaxed);
                if i >= n {
                    break;
                }
                let (c, g, nl, nr, via) = cases[i];
                if let Some(l) = dispatch(c, g, nl, nr, via) {
                    out.lock().unwrap().push((i, l));
                }
            });
        }
    });
    let mut v = out.into_inner().unwrap();
    v.sort();
    for (_, l) in &v {
        println!("{}", l);
    }
    println!("DONE cases={} panics={}", n, v.len());
    std::process::exit(if v.is_empty() { 0 } else { 1 });
}
